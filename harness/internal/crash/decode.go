package crash

import (
	"crypto/md5"
	"encoding/binary"
	"fmt"
	"path/filepath"
	"regexp"
	"strings"

	"github.com/klauspost/compress/snappy"

	"github.com/alpacahq/marketstore/v4/executor"
	"github.com/alpacahq/marketstore/v4/utils/io"

	"verifharness/internal/cq"
)

// Cmd mirrors Model/Wal.v cmd.
type Cmd struct {
	Var   bool
	F     int
	Off   int64
	Index int64
	Data  [][]byte
	Vrl   int64
	Meta  int64
}

// WRec mirrors Model/Wal.v wrec.
type WRec struct {
	T             string // txn mid len body sum
	Tid, Dest, St int64
	N             int64
	Cmds          []Cmd
	Ok            bool
}

// Ev mirrors Model/Wal.v event (one per recorded op).
type Ev struct {
	K          string // cat create walcreate walstatus walapp walfsync waltrunc walunlink walrename sync pw vdata vindex ack other
	F, W       int
	A, B, C, D int64
	Var        bool
	Rec        *WRec
	Payload    []byte
	Content    [][]byte
	Ack        int
	Note       string
}

var reWal = regexp.MustCompile(`^WALFile\.\d+\.walfile$`)
var reBin = regexp.MustCompile(`^([^/]+/[^/]+/[^/]+)/(\d+)\.bin$`)

// FileInfo of one primary year file.
type FileInfo struct {
	Path    string
	Bucket  string
	Year    int
	Var     bool
	Size0   int64
	CreatAt int // op index of the creat
	HdrAt   int // op index of the header write
	DoneAt  int // op index of the completing ftruncate (-1 while incomplete)
	DelAt   int // op index + 1 of its unlink (RemoveTimeBucket); 0 = never
	Vrl     int
}

// Decoded trace.
type Decoded struct {
	Evs   []Ev
	Files []FileInfo
	FID   map[string]int
	WID   map[string]int
	NWal  int
	Clen  []ClenEnt
	Errs  []string
}

type ClenEnt struct {
	Content [][]byte
	Len     int64
}

func splitRecs(b []byte, n int) [][]byte {
	if n <= 0 {
		return [][]byte{b}
	}
	var out [][]byte
	for i := 0; i+n <= len(b); i += n {
		out = append(out, b[i:i+n])
	}
	if len(b)%n != 0 {
		out = append(out, b[len(b)-len(b)%n:])
	}
	return out
}

// Decode maps recorded ops 1:1 to model events.  vrlOf gives the variable record length of a bucket
// key (from the history).  init (optional) carries the file/WAL numbering of a pre-existing image
// (recovery traces, C34).
func Decode(ops []Op, root string, vrlOf func(bucket string) int, init *Decoded) *Decoded {
	d := &Decoded{FID: map[string]int{}, WID: map[string]int{}}
	if init != nil {
		d.Files = append(d.Files, init.Files...)
		for k, v := range init.FID {
			d.FID[k] = v
		}
		for k, v := range init.WID {
			d.WID[k] = v
		}
		d.NWal = init.NWal
		d.Clen = append(d.Clen, init.Clen...)
	}
	walEnd := map[int]int64{}  // wid -> current size
	walStage := map[int]int{}  // 0 idle, 1 after mid, 2 after len, 3 after body
	walLen := map[int][]byte{} // pending len bytes
	walBody := map[int][]byte{}
	if init != nil {
		// sizes of pre-existing WAL files are unknown here; appended writes are checked lazily
		for _, w := range init.WID {
			walEnd[w] = -1
		}
	}
	bad := func(i int, f string, a ...interface{}) Ev {
		msg := fmt.Sprintf("op %d: ", i) + fmt.Sprintf(f, a...)
		d.Errs = append(d.Errs, msg)
		return Ev{K: "other", Note: msg}
	}
	for i, o := range ops {
		var ev Ev
		base := filepath.Base(o.Path)
		isWal := reWal.MatchString(o.Path)
		bin := reBin.FindStringSubmatch(o.Path)
		switch {
		case o.Kind == "ack":
			ev = Ev{K: "ack", Ack: o.Ack}
			if o.Nak {
				ev = bad(i, "NAK %d", o.Ack)
			}
		case o.Kind == "sync":
			ev = Ev{K: "sync"}
		case isWal:
			w, known := d.WID[o.Path]
			switch o.Kind {
			case "creat":
				w = d.NWal
				d.NWal++
				d.WID[o.Path] = w
				walEnd[w] = 0
				ev = Ev{K: "walcreate", W: w}
			case "write":
				if !known {
					ev = bad(i, "write to unknown WAL %s", o.Path)
					break
				}
				if o.Off == 0 && len(o.Data) == 11 && o.Data[0] == 2 {
					ev = Ev{K: "walstatus", W: w, A: int64(int8(o.Data[1])), B: int64(int8(o.Data[2])),
						C: int64(binary.LittleEndian.Uint64(o.Data[3:]))}
					if walEnd[w] >= 0 && walEnd[w] < 11 {
						walEnd[w] = 11
					}
					break
				}
				if walEnd[w] >= 0 && o.Off != walEnd[w] {
					ev = bad(i, "WAL write at %d, end of file is %d", o.Off, walEnd[w])
					break
				}
				if walEnd[w] >= 0 {
					walEnd[w] += int64(len(o.Data))
				}
				rec := &WRec{}
				switch walStage[w] {
				case 0:
					switch {
					case len(o.Data) == 11 && o.Data[0] == 1:
						rec.T = "txn"
						rec.Tid = int64(binary.LittleEndian.Uint64(o.Data[1:]))
						rec.Dest = int64(int8(o.Data[9]))
						rec.St = int64(int8(o.Data[10]))
					case len(o.Data) == 1 && o.Data[0] == 0:
						rec.T = "mid"
						walStage[w] = 1
					default:
						ev = bad(i, "unexpected WAL write of %d bytes (first %x)", len(o.Data), o.Data[:1])
					}
				case 1:
					if len(o.Data) != 8 {
						ev = bad(i, "TG length write of %d bytes", len(o.Data))
						break
					}
					rec.T = "len"
					rec.N = int64(binary.LittleEndian.Uint64(o.Data))
					walLen[w] = o.Data
					walStage[w] = 2
				case 2:
					rec.T = "body"
					walBody[w] = o.Data
					walStage[w] = 3
					func() {
						defer func() {
							if r := recover(); r != nil {
								ev = bad(i, "ParseTGData panicked: %v", r)
							}
						}()
						id, wts := executor.ParseTGData(o.Data, root)
						rec.Tid = id
						for _, wt := range wts {
							relp, _ := filepath.Rel(root, wt.FilePath)
							f, ok := d.FID[relp]
							if !ok {
								f = 9999
								d.Errs = append(d.Errs, fmt.Sprintf("op %d: TG names unknown file %s", i, relp))
							}
							dsv, _ := io.DSVToBytes(wt.DataShapes)
							c := Cmd{Var: wt.RecordType == io.VARIABLE, F: f, Off: wt.Buffer.Offset(), Index: wt.Buffer.Index(),
								Vrl: int64(wt.VarRecLen), Meta: int64(len(relp) + len(dsv))}
							pl := wt.Buffer.Payload()
							if c.Var {
								c.Data = splitRecs(pl, wt.VarRecLen)
							} else {
								c.Data = [][]byte{pl}
							}
							rec.Cmds = append(rec.Cmds, c)
						}
					}()
				case 3:
					if len(o.Data) != 16 {
						ev = bad(i, "checksum write of %d bytes", len(o.Data))
						break
					}
					rec.T = "sum"
					h := md5.New()
					h.Write(walLen[w])
					h.Write(walBody[w])
					rec.Ok = string(h.Sum(nil)) == string(o.Data)
					walStage[w] = 0
				}
				if ev.K == "" {
					ev = Ev{K: "walapp", W: w, Rec: rec}
				}
			case "fsync":
				ev = Ev{K: "walfsync", W: w}
			case "trunc":
				if o.Len != 0 {
					ev = bad(i, "WAL truncated to %d", o.Len)
					break
				}
				walEnd[w] = 0
				walStage[w] = 0
				ev = Ev{K: "waltrunc", W: w}
			case "unlink":
				ev = Ev{K: "walunlink", W: w}
			case "rename":
				if o.To != o.Path+".tmp" {
					ev = bad(i, "WAL renamed to %s", o.To)
					break
				}
				ev = Ev{K: "walrename", W: w}
			default:
				ev = bad(i, "%s on WAL", o.Kind)
			}
		case bin != nil:
			f, known := d.FID[o.Path]
			switch o.Kind {
			case "creat":
				y := 0
				fmt.Sscanf(bin[2], "%d", &y)
				nf := FileInfo{Path: o.Path, Bucket: bin[1], Year: y, CreatAt: i, HdrAt: -1, DoneAt: -1, Vrl: vrlOf(bin[1])}
				if known && d.Files[f].DelAt > 0 {
					d.Files[f] = nf // re-created after a removal: WAL records name files by path, so the id is the path's
				} else {
					f = len(d.Files)
					d.FID[o.Path] = f
					d.Files = append(d.Files, nf)
				}
				ev = Ev{K: "filenew", F: f}
			case "unlink":
				if !known {
					ev = bad(i, "unlink of unknown file %s", o.Path)
					break
				}
				d.Files[f].DelAt = i + 1
				ev = Ev{K: "filedel", F: f}
			case "write":
				if !known {
					ev = bad(i, "write to unknown file %s", o.Path)
					break
				}
				fi := &d.Files[f]
				if fi.DoneAt < 0 { // header write of a file being created
					if o.Off != 0 || int64(len(o.Data)) != io.Headersize || fi.HdrAt >= 0 {
						ev = bad(i, "unexpected write of %d bytes at %d to a year file being created", len(o.Data), o.Off)
						break
					}
					fi.Var = binary.LittleEndian.Uint64(o.Data[280:]) == uint64(io.VARIABLE)
					fi.HdrAt = i
					ev = Ev{K: "filehdr", F: f, Var: fi.Var}
					break
				}
				if !fi.Var {
					if len(o.Data) < 8 {
						ev = bad(i, "short fixed write")
						break
					}
					ev = Ev{K: "pw", F: f, A: o.Off, B: int64(binary.LittleEndian.Uint64(o.Data)), Payload: o.Data[8:]}
					break
				}
				if o.Off < fi.Size0 {
					if len(o.Data) != 24 {
						ev = bad(i, "index-area write of %d bytes", len(o.Data))
						break
					}
					ev = Ev{K: "vindex", F: f, A: o.Off, B: int64(binary.LittleEndian.Uint64(o.Data)),
						C: int64(binary.LittleEndian.Uint64(o.Data[8:])), D: int64(binary.LittleEndian.Uint64(o.Data[16:]))}
					break
				}
				raw, err := snappy.Decode(nil, o.Data)
				if err != nil {
					ev = bad(i, "data block does not decode: %v", err)
					break
				}
				content := splitRecs(raw, fi.Vrl)
				d.Clen = append(d.Clen, ClenEnt{content, int64(len(o.Data))})
				ev = Ev{K: "vdata", F: f, A: o.Off, B: int64(len(o.Data)), Content: content}
			case "trunc":
				if !known {
					ev = bad(i, "truncate of unknown file")
					break
				}
				fi := &d.Files[f]
				if fi.DoneAt >= 0 {
					ev = bad(i, "second truncate of %s", o.Path)
					break
				}
				fi.DoneAt = i
				fi.Size0 = o.Len
				ev = Ev{K: "create", F: f, Var: fi.Var, A: o.Len}
			default:
				ev = bad(i, "%s on %s", o.Kind, o.Path)
			}
		case o.Kind == "mkdir" || base == "category_name":
			ev = Ev{K: "cat"}
		case o.Kind == "unlink" && !strings.Contains(base, "."):
			ev = Ev{K: "cat"} // rmdir of a catalog directory (RemoveTimeBucket)
		default:
			if strings.HasSuffix(o.Path, ".walfile.tmp") {
				ev = bad(i, "%s on moved-aside WAL %s", o.Kind, o.Path)
			} else {
				ev = bad(i, "unclassified %s %s", o.Kind, o.Path)
			}
		}
		d.Evs = append(d.Evs, ev)
	}
	return d
}

// ---------------------------------------------------------------- Gallina printing

func recsTerm(rs [][]byte) string {
	var it []string
	for _, r := range rs {
		it = append(it, byteTerm(r))
	}
	return cq.List(it)
}

func byteTerm(b []byte) string {
	if len(b) == 0 {
		return "(@nil Byte.byte)"
	}
	return "(unhexp " + cq.Hex(b) + ")"
}

func kindTerm(v bool) string {
	if v {
		return "KVar"
	}
	return "KFixed"
}

func (c Cmd) Term() string {
	return cq.Rec(cq.F("c_kind", kindTerm(c.Var)), cq.F("c_fid", cq.N(uint64(c.F))), cq.F("c_off", cq.Z(c.Off)),
		cq.F("c_index", cq.Z(c.Index)), cq.F("c_data", recsTerm(c.Data)), cq.F("c_vrl", cq.Z(c.Vrl)), cq.F("c_meta", cq.Z(c.Meta)))
}

func (r *WRec) Term() string {
	switch r.T {
	case "txn":
		return fmt.Sprintf("(RTxn %s %s %s)", cq.Z(r.Tid), cq.Z(r.Dest), cq.Z(r.St))
	case "mid":
		return "RMid"
	case "len":
		return fmt.Sprintf("(RLen %s)", cq.Z(r.N))
	case "body":
		var cs []string
		for _, c := range r.Cmds {
			cs = append(cs, c.Term())
		}
		return fmt.Sprintf("(RBody %s %s)", cq.Z(r.Tid), cq.List(cs))
	case "sum":
		return fmt.Sprintf("(RSum %s)", cq.Bool(r.Ok))
	}
	return "RMid"
}

func (e Ev) Term() string {
	w, f := cq.N(uint64(e.W)), cq.N(uint64(e.F))
	switch e.K {
	case "cat":
		return "ECat"
	case "filenew":
		return fmt.Sprintf("(EFileNew %s)", f)
	case "filedel":
		return fmt.Sprintf("(EFileDel %s)", f)
	case "filehdr":
		return fmt.Sprintf("(EFileHdr %s %s)", f, kindTerm(e.Var))
	case "create":
		return fmt.Sprintf("(ECreate %s %s %s)", f, kindTerm(e.Var), cq.Z(e.A))
	case "walcreate":
		return fmt.Sprintf("(EWalCreate %s)", w)
	case "walstatus":
		return fmt.Sprintf("(EWalStatus %s %s %s %s)", w, cq.Z(e.A), cq.Z(e.B), cq.Z(e.C))
	case "walapp":
		return fmt.Sprintf("(EWalApp %s %s)", w, e.Rec.Term())
	case "walfsync":
		return fmt.Sprintf("(EWalFsync %s)", w)
	case "waltrunc":
		return fmt.Sprintf("(EWalTrunc %s)", w)
	case "walunlink":
		return fmt.Sprintf("(EWalUnlink %s)", w)
	case "walrename":
		return fmt.Sprintf("(EWalRename %s)", w)
	case "sync":
		return "ESync"
	case "pw":
		return fmt.Sprintf("(EPW %s %s %s %s)", f, cq.Z(e.A), cq.Z(e.B), byteTerm(e.Payload))
	case "vdata":
		return fmt.Sprintf("(EVData %s %s %s %s)", f, cq.Z(e.A), cq.Z(e.B), recsTerm(e.Content))
	case "vindex":
		return fmt.Sprintf("(EVIndex %s %s %s %s %s)", f, cq.Z(e.A), cq.Z(e.B), cq.Z(e.C), cq.Z(e.D))
	case "ack":
		return fmt.Sprintf("(EAck %s)", cq.Nat(e.Ack))
	}
	return "EOther"
}

func EvsTerm(evs []Ev) string {
	var it []string
	for _, e := range evs {
		it = append(it, e.Term())
	}
	return cq.List(it)
}
