package crash

import (
	"encoding/hex"
	"fmt"
)

// The properties evaluated on the IMPLEMENTATION's own recovery output (the search oracle).  They are
// stated on rows, as the property texts are: expected data comes from the history, never from the model.

type slotKey struct {
	bucket int
	year   int
	index  int64
}

type hrow struct {
	step   int
	key    slotKey
	vals   string // hex
	jan1   bool   // daily bucket, slot index 0 (finding class daily-jan1)
	xyear  bool   // its batch is not sorted by year (coverage tag only: the former class cross-year-unsorted is fixed, /repo 49eddda)
	varbkt bool
}

// rowsOf lists the rows of every write step with their slots (real time arithmetic).
func (h *History) rowsOf() [][]hrow {
	out := make([][]hrow, len(h.Steps))
	for si := range h.Steps {
		st := &h.Steps[si]
		if st.Kind != "write" {
			continue
		}
		for bi := range st.Batches {
			bt := &st.Batches[bi]
			b := &h.Buckets[bt.Bucket]
			info := h.info(b)
			xy := false
			py := -1 << 30
			for _, r := range bt.Rows {
				y, _, _, _ := rowSlot(info, b, r)
				if y < py {
					xy = true
				}
				py = y
			}
			for _, r := range bt.Rows {
				y, idx, _, _ := rowSlot(info, b, r)
				out[si] = append(out[si], hrow{step: si, key: slotKey{bt.Bucket, y, idx}, vals: hex.EncodeToString(r.Vals),
					jan1: idx == 0, xyear: xy, varbkt: b.Variable})
			}
		}
	}
	return out
}

// Progress of the history at crash prefix k: which write steps were acknowledged, which one is in flight.
type progress struct {
	acked    map[int]bool
	inflight int // step index of the request whose WriteCSM had not returned (-1: none started)
	// window: the last applied event is a variable data block written in place whose index triple is not yet written
	inWindow bool
	// some variable TG has reached its first primary write and is not covered by a completed checkpoint
	varUnchecked bool
	// a year file has been created and its header is not yet written (bucket -> true)
	noHeader map[string]bool
}

func (h *History) progressAt(d *Decoded, k int) progress {
	p := progress{acked: map[int]bool{}, inflight: -1}
	last := -1
	for i := 0; i < k && i < len(d.Evs); i++ {
		if d.Evs[i].K == "ack" {
			p.acked[d.Evs[i].Ack] = true
			last = d.Evs[i].Ack
		}
	}
	// the next write step after the last acked one is in flight iff some event after its predecessor's ack precedes k
	next := -1
	for si := last + 1; si < len(h.Steps); si++ {
		if h.Steps[si].Kind == "write" {
			next = si
			break
		}
	}
	if next >= 0 {
		p.inflight = next
	}
	// continuation window and unchecked variable TGs
	blockEnd := map[int]int64{}  // file -> end of file
	blockAt := map[int]map[int64]bool{}
	varDirty := false
	replayedVar := false
	for i := 0; i < k && i < len(d.Evs); i++ {
		e := d.Evs[i]
		switch e.K {
		case "create":
			blockEnd[e.F] = e.A
			blockAt[e.F] = map[int64]bool{}
		case "vdata":
			inPlace := blockAt[e.F][e.A]
			if blockAt[e.F] == nil {
				blockAt[e.F] = map[int64]bool{}
			}
			blockAt[e.F][e.A] = true
			if e.A+e.B > blockEnd[e.F] {
				blockEnd[e.F] = e.A + e.B
			}
			varDirty = true
			p.inWindow = inPlace && i == k-1
		case "vindex":
			p.inWindow = false
		case "walstatus":
			// a replay starts (REPLAYINPROCESS) while variable TGs are applied and unchecked: it re-appends them
			if e.B == 3 && varDirty {
				replayedVar = true
			}
		case "walapp":
			if e.Rec.T == "txn" && e.Rec.Dest == 1 && e.Rec.St == 2 {
				varDirty = false
			}
		case "waltrunc":
			varDirty = false
		}
		if e.K != "vdata" && i == k-1 {
			p.inWindow = false
		}
	}
	p.varUnchecked = varDirty || replayedVar
	p.noHeader = map[string]bool{}
	for _, fi := range d.Files {
		if fi.CreatAt < k && (fi.HdrAt < 0 || fi.HdrAt >= k) {
			p.noHeader[fi.Bucket] = true
		}
	}
	return p
}

// Verdict of one property at one prefix.
type Verdict struct {
	Holds  bool
	Class  string
	Detail string
}

// rowsByBucket indexes the recovered rows: for bucket b, slot -> list of vals (hex) in returned order.
func (h *History) recovered(d *Decoded, o Obs) map[slotKey][]string {
	m := map[slotKey][]string{}
	for bi, b := range o.B {
		if b.Code != 1 {
			continue
		}
		for _, r := range b.Rows {
			y := 0
			if r.F < len(d.Files) {
				y = d.Files[r.F].Year
			}
			k := slotKey{bi, y, r.Index}
			m[k] = append(m[k], hex.EncodeToString(r.Payload))
		}
	}
	return m
}

func count(l []string, v string) int {
	n := 0
	for _, x := range l {
		if x == v {
			n++
		}
	}
	return n
}

// C03: start-up succeeds and every bucket that existed can be queried.
func (h *History) OracleC03(d *Decoded, o Obs) (fails []Verdict) {
	p := h.progressAt(d, o.K)
	cls := ""
	if p.inWindow {
		cls = "crash-inside-continuation-write"
	}
	if o.Class != 0 {
		fails = append(fails, Verdict{false, cls, fmt.Sprintf("k=%d: restart fails (%s): %s", o.K, []string{"ok", "startup-error", "panic"}[o.Class], o.Err)})
		return
	}
	for bi, b := range o.B {
		if b.Code == 2 {
			fails = append(fails, Verdict{false, cls, fmt.Sprintf("k=%d: query of bucket %s fails: %s", o.K, h.Buckets[bi].Key, b.Err)})
		}
		if b.Code == 4 {
			c := ""
			if p.noHeader[h.Buckets[bi].Key] {
				c = "crash-inside-year-file-creation"
			}
			fails = append(fails, Verdict{false, c, fmt.Sprintf("k=%d: query of bucket %s kills the server process: %s", o.K, h.Buckets[bi].Key, b.Err)})
		}
	}
	return fails
}

// C01: every acknowledged write is returned after the restart.
func (h *History) OracleC01(d *Decoded, o Obs) (fails []Verdict) {
	p := h.progressAt(d, o.K)
	rows := h.rowsOf()
	if o.Class != 0 {
		cls := ""
		if p.inWindow {
			cls = "crash-inside-continuation-write"
		}
		if len(p.acked) == 0 {
			return nil // nothing acknowledged yet: C03's business
		}
		fails = append(fails, Verdict{false, cls, fmt.Sprintf("k=%d: acknowledged data unavailable, restart fails: %s", o.K, o.Err)})
		return
	}
	got := h.recovered(d, o)
	// last acknowledged value per fixed slot; in-flight values
	lastAcked := map[slotKey]hrow{}
	inflight := map[slotKey]map[string]bool{}
	for si := range h.Steps {
		for _, r := range rows[si] {
			if p.acked[si] {
				if !r.varbkt {
					lastAcked[r.key] = r
				}
			} else if si == p.inflight {
				if inflight[r.key] == nil {
					inflight[r.key] = map[string]bool{}
				}
				inflight[r.key][r.vals] = true
			}
		}
	}
	classOf := func(r hrow, bi int) string {
		switch {
		case r.jan1:
			return "daily-jan1"
		case o.B[bi].Code == 2 && p.inWindow:
			return "crash-inside-continuation-write"
		case o.B[bi].Code == 4 && p.noHeader[h.Buckets[bi].Key]:
			return "crash-inside-year-file-creation"
		}
		return ""
	}
	for k, r := range lastAcked {
		if o.B[k.bucket].Code == 3 {
			continue
		}
		g := got[k]
		ok := len(g) == 1 && (g[0] == r.vals || inflight[k][g[0]])
		if !ok {
			fails = append(fails, Verdict{false, classOf(r, k.bucket), fmt.Sprintf("k=%d: fixed slot %s year %d index %d: acknowledged value %s (request %d), recovered %v",
				o.K, h.Buckets[k.bucket].Key, k.year, k.index, r.vals, r.step, g)})
		}
	}
	for si := range h.Steps {
		if !p.acked[si] {
			continue
		}
		for _, r := range rows[si] {
			if !r.varbkt || o.B[r.key.bucket].Code == 3 {
				continue
			}
			if count(got[r.key], r.vals) < 1 {
				fails = append(fails, Verdict{false, classOf(r, r.key.bucket), fmt.Sprintf("k=%d: variable record %s of acknowledged request %d missing from %s year %d index %d (recovered %v)",
					o.K, r.vals, si, h.Buckets[r.key.bucket].Key, r.key.year, r.key.index, got[r.key])})
			}
		}
	}
	return fails
}

// C02: nothing that was not issued; variable records exactly as often as written; in-flight request all or nothing.
func (h *History) OracleC02(d *Decoded, o Obs) (fails []Verdict) {
	if o.Class != 0 {
		return nil // no data is served at all: C03's business
	}
	p := h.progressAt(d, o.K)
	rows := h.rowsOf()
	got := h.recovered(d, o)
	issued := map[slotKey]map[string]int{} // acked or in flight
	ackedN := map[slotKey]map[string]int{}
	for si := range h.Steps {
		if !p.acked[si] && si != p.inflight {
			continue
		}
		for _, r := range rows[si] {
			if issued[r.key] == nil {
				issued[r.key] = map[string]int{}
				ackedN[r.key] = map[string]int{}
			}
			issued[r.key][r.vals]++
			if p.acked[si] {
				ackedN[r.key][r.vals]++
			}
		}
	}
	cls := func(bucket int, variable bool) string {
		if variable && p.varUnchecked {
			return "variable-tg-applied-unchecked"
		}
		return ""
	}
	for k, vals := range got {
		b := &h.Buckets[k.bucket]
		for _, v := range vals {
			if issued[k][v] == 0 {
				fails = append(fails, Verdict{false, cls(k.bucket, b.Variable), fmt.Sprintf("k=%d: phantom row %s in %s year %d index %d", o.K, v, b.Key, k.year, k.index)})
			}
			if b.Variable {
				n := count(vals, v)
				if n > issued[k][v] {
					fails = append(fails, Verdict{false, cls(k.bucket, true), fmt.Sprintf("k=%d: variable record %s appears %d times in %s year %d index %d, written %d times",
						o.K, v, n, b.Key, k.year, k.index, issued[k][v])})
				}
			}
		}
	}
	// in-flight request: all or nothing (rows of the in-flight step that are not also acknowledged values)
	if p.inflight >= 0 && !p.acked[p.inflight] {
		present, absent := 0, 0
		for _, r := range rows[p.inflight] {
			if o.B[r.key.bucket].Code != 1 || r.jan1 {
				continue
			}
			// a fixed row superseded by a later row of the same request to the same slot is not expected
			if !r.varbkt {
				lastSame := ""
				for _, q := range rows[p.inflight] {
					if q.key == r.key {
						lastSame = q.vals
					}
				}
				if lastSame != r.vals {
					continue
				}
			}
			if count(got[r.key], r.vals) > ackedN[r.key][r.vals] {
				present++
			} else {
				absent++
			}
		}
		if present > 0 && absent > 0 {
			c := ""
			fails = append(fails, Verdict{false, c, fmt.Sprintf("k=%d: in-flight request %d partially applied (%d rows present, %d absent)", o.K, p.inflight, present, absent)})
		}
	}
	return fails
}
