package crash

import (
	"fmt"
	"os"
	"path/filepath"
)

// ApplyOp re-applies one recorded op to a directory (the harness-side mirror of Model/FS.v apply).
func ApplyOp(dir string, o Op) error {
	p := filepath.Join(dir, o.Path)
	switch o.Kind {
	case "mkdir":
		return os.Mkdir(p, 0o770)
	case "creat":
		f, err := os.OpenFile(p, os.O_CREATE|os.O_EXCL|os.O_RDWR, 0o600)
		if err != nil {
			return err
		}
		return f.Close()
	case "write":
		f, err := os.OpenFile(p, os.O_RDWR, 0)
		if err != nil {
			return err
		}
		_, err = f.WriteAt(o.Data, o.Off)
		f.Close()
		return err
	case "trunc":
		return os.Truncate(p, o.Len)
	case "rename":
		return os.Rename(p, filepath.Join(dir, o.To))
	case "unlink":
		return os.Remove(p)
	case "fsync", "sync", "ack":
		return nil
	}
	return fmt.Errorf("unknown op %q", o.Kind)
}

// Materialise builds, in the fresh directory dir, the process-crash image after the first k ops
// (ops of every kind count; barriers and acks are no-ops).
func Materialise(dir string, ops []Op, k int) error {
	if err := os.MkdirAll(dir, 0o770); err != nil {
		return err
	}
	if k > len(ops) {
		k = len(ops)
	}
	for i := 0; i < k; i++ {
		if err := ApplyOp(dir, ops[i]); err != nil {
			return fmt.Errorf("op %d (%s %s): %w", i, ops[i].Kind, ops[i].Path, err)
		}
	}
	return nil
}
