package crash

import (
	"bufio"
	"crypto/sha1"
	"encoding/hex"
	"encoding/json"
	"flag"
	"fmt"
	"os"
	"os/exec"
	"path/filepath"
	"sort"
	"strings"
	"sync"
	"time"

	"verifharness/internal/rng"
)

// Explored: everything recorded about one history (cached and shared by the group's checks).
type Explored struct {
	History History `json:"history"`
	Ops     []Op    `json:"ops"`
	Exit    int     `json:"exit"`
	Ks      []int   `json:"ks"`
	Outs    []RecoverOut `json:"outs"`
	Pre     []QBucket    `json:"pre,omitempty"`
	Post    []QBucket    `json:"post,omitempty"`
	Double  []DoubleCrash `json:"double,omitempty"` // C34: crashes during the recovery of selected images
	PL      []PLObs       `json:"pl,omitempty"`     // C04: power-loss images
	Err     string  `json:"err,omitempty"`
}

// line of cases.jsonl (same keys as implrun's).
type jline struct {
	I          int             `json:"i"`
	Source     string          `json:"source"`
	Input      json.RawMessage `json:"input"`
	Obs        interface{}     `json:"obs"`
	Holds      bool            `json:"holds"`
	Class      string          `json:"class"`
	Detail     string          `json:"detail"`
	InDomain   bool            `json:"in_domain"`
	Tags       []string        `json:"tags"`
	Nontrivial bool            `json:"nontrivial"`
	Key        string          `json:"key"`
	Fails      []FailRow       `json:"fails,omitempty"`
	Prefixes   int             `json:"prefixes"`
	Events     int             `json:"events"`
	Err        string          `json:"err,omitempty"`
}

// FailRow: one oracle failure (one crash prefix) of a case.
type FailRow struct {
	K      int    `json:"k"`
	Class  string `json:"class"`
	Detail string `json:"detail"`
}

func repoDir() string {
	if r := os.Getenv("VERIF_REPO"); r != "" {
		return r
	}
	return "/repo"
}

// treeKey: identifies the code under test + this binary, so that the cache is rebuilt when /repo changes.
func treeKey() string {
	// the crashrun binary links the marketstore packages it exercises (built from /repo's working tree with
	// -tags verif on every check), so its content changes exactly when the code under test changes
	h := sha1.New()
	if b, err := os.ReadFile(self()); err == nil {
		h.Write(b)
	} else {
		for _, args := range [][]string{{"rev-parse", "HEAD"}, {"diff", "HEAD"}, {"status", "--porcelain"}} {
			out, _ := exec.Command("git", append([]string{"-C", repoDir()}, args...)...).Output()
			h.Write(out)
		}
	}
	return hex.EncodeToString(h.Sum(nil))[:16]
}

// poolA: the synchronous-mode histories of C01, C02 and C03 (the same histories for the three checks: one
// recording and one all-prefix exploration serve all of them; C05 takes its checkpointed member too).
func poolA(tier string, i int) GenOpts {
	o := GenOpts{Tier: tier}
	// a mix: clean histories (inside every guard), variable-heavy, checkpointed
	switch i % 4 {
	case 0:
		o.Clean = true
	case 1:
		o.OnlyVariable = true
		o.Clean = true
	case 2:
		o.Ckpt = true
	}
	return o
}

// poolB: the short histories of C34 (crashes inside the recovery) and C04 (power loss), whose enumerations
// grow with the length of the trace: shared by the two checks.
func poolB(tier string, i int) GenOpts {
	o := GenOpts{Tier: tier, Clean: true, MaxSteps: 4}
	switch i % 3 {
	case 0:
		o.Ckpt = true
	case 1:
		o.OnlyVariable = true
	case 2:
		o.Ckpt = true
		o.NoVariable = true
		o.Rewrite = true // ends with two un-checkpointed groups that write the same fixed slot
	}
	return o
}

// planFor: generator options and generator stream of the i-th generated history of a check.
func planFor(prop string, tier string, i int) (GenOpts, uint64) {
	o := GenOpts{Tier: tier}
	switch prop {
	case "C01", "C02":
		return poolA(tier, i), uint64(i)
	case "C03":
		// pool A, and every fifth history destroys a bucket (catalog.RemoveTimeBucket) after an acknowledged
		// write that no checkpoint follows: every later crash prefix holds a WAL whose transaction group
		// names a year file that is gone (the cleaner's move-aside branch)
		if i%5 == 4 {
			return GenOpts{Tier: tier, Clean: true, Destroy: true, NoVariable: i%10 == 4, MaxSteps: 5}, 4000 + uint64(i)
		}
		j := i - i/5
		return poolA(tier, j), uint64(j)
	case "C05":
		if i%4 == 0 {
			return poolA(tier, i+2), uint64(i + 2) // the checkpointed history of pool A
		}
		o.Clean = i%2 == 0
		o.MaxSteps = 9
		if i%2 == 1 {
			o.Mode = "bg" // the REAL loop: timer flushes, timer checkpoints, rotation every 2nd checkpoint
			o.Shutdown = true // Shutdown() at the end: the process must not exit while the loop is inside a step
		} else {
			o.Ckpt = true // synchronous mode, checkpoints and rotations as history steps
		}
		return o, 1000 + uint64(i)
	case "C35":
		o.Shutdown = true
		o.Clean = i%3 != 2
		if i%2 == 0 {
			o.Mode = "bg" // the real SyncWAL goroutine and Shutdown()
			// every other background history requests the shutdown while the last requests are still queued
			// (not yet flushed); half of those use variable-length buckets only (a group re-applied by a restart
			// shows as duplicates there)
			o.Pending = i%4 == 0
			o.OnlyVariable = i%8 == 0
		} else {
			o.Ckpt = true // synchronous mode with explicit checkpoints/rotations, then the shutdown branch's two calls
		}
		return o, 2000 + uint64(i)
	case "C34", "C04":
		return poolB(tier, i), 3000 + uint64(i)
	}
	return o, uint64(i)
}

func kindOf(prop string) string {
	switch prop {
	case "C01", "C03":
		return "sync"
	}
	return prop // C02 adds crashes inside the recovery to the prefixes of the run; C05 (checkpointed), C35 (shutdown), C34 (double crash), C04 (power loss) have their own sets
}

func maxPrefixes(tier string) int {
	if tier == "thorough" {
		return 100000
	}
	return 100
}

// Base: the layer of the trace cache that every check of the group shares: one recording of a history and the
// real recovery's outcome on the crash images explored so far.  The double-crash layer (C02, C34) and the
// power-loss layer (C04) are stored separately and are tied to the recording by the hash of its ops.
type Base struct {
	Ops  []Op         `json:"ops"`
	Exit int          `json:"exit"`
	Pre  []QBucket    `json:"pre,omitempty"`
	Post []QBucket    `json:"post,omitempty"`
	Ks   []int        `json:"ks"`
	Outs []RecoverOut `json:"outs"`
}

type layer struct {
	OpsKey string        `json:"ops_key"`
	Double []DoubleCrash `json:"double,omitempty"`
	PL     []PLObs       `json:"pl,omitempty"`
}

func readJSON(path string, v interface{}) bool {
	b, err := os.ReadFile(path)
	return err == nil && json.Unmarshal(b, v) == nil
}

func writeJSON(path string, v interface{}) {
	b, _ := json.Marshal(v)
	tmp := path + fmt.Sprintf(".%d", os.Getpid())
	if os.WriteFile(tmp, b, 0o644) == nil {
		os.Rename(tmp, path)
	}
}

// explore one history: the shared base layer (recorded once per tree, whichever check of the group comes first;
// prefixes another check already explored are not explored again), then the layers of this check's kind.
func exploreHistory(h History, raw []byte, cacheDir, dir, tier string, workers int, kind string, nocache bool) Explored {
	ex := Explored{History: h}
	hk := sha1.Sum(raw)
	hkey := hex.EncodeToString(hk[:])[:20]
	basef := filepath.Join(cacheDir, "base-"+hkey+".json")
	var base Base
	if nocache || !readJSON(basef, &base) || len(base.Ops) == 0 {
		base = Base{}
		rec, err := Record(&h, dir, false)
		if err != nil {
			ex.Err = "record: " + err.Error()
			return ex
		}
		if h.Mode == "bg" {
			// A timer flush can fire while WriteCSM is still queueing the commands of a request and split them over
			// two transaction groups; the schedule inference (one TG per request) then does not apply.  Such a run
			// is recorded again (the timers decide; it is rare).
			for try := 0; try < 3; try++ {
				d0 := Decode(rec.Ops, "/", h.VrlOf, nil)
				if _, serr := h.SchedBG(d0); serr == nil && len(d0.Errs) == 0 {
					break
				}
				if r2, err2 := Record(&h, dir, false); err2 == nil {
					rec = r2
				}
			}
		}
		base.Ops, base.Exit, base.Pre, base.Post = rec.Ops, rec.Exit, rec.Pre, rec.Post
	}
	ex.Ops, ex.Exit, ex.Pre, ex.Post = base.Ops, base.Exit, base.Pre, base.Post
	root := filepath.Join(dir, "root")
	if a, err := filepath.Abs(root); err == nil {
		root = a
	}
	d := Decode(ex.Ops, root, h.VrlOf, nil)
	ex.Ks = Prefixes(d, maxPrefixes(tier))
	if kind == "C35" || kind == "C04" || kind == "C34" {
		ex.Ks = []int{len(ex.Ops)} // only the final image matters (all prefixes are C01-C03's business; C34's and C04's own images are in their layers)
	}
	have := map[int]int{}
	for j, k := range base.Ks {
		have[k] = j
	}
	var missing []int
	for _, k := range ex.Ks {
		if _, ok := have[k]; !ok {
			missing = append(missing, k)
		}
	}
	if len(missing) > 0 {
		obs := Explore(&h, d, ex.Ops, missing, filepath.Join(dir, "img"), workers)
		for j, o := range obs {
			out := o.Raw
			if o.Err != "" && o.Raw.Class == "" {
				out = RecoverOut{Class: "panic", Err: o.Err}
			}
			have[missing[j]] = len(base.Ks)
			base.Ks = append(base.Ks, missing[j])
			base.Outs = append(base.Outs, out)
		}
		writeJSON(basef, &base)
	}
	for _, k := range ex.Ks {
		ex.Outs = append(ex.Outs, base.Outs[have[k]])
	}
	if kind == "C34" || kind == "C02" || kind == "C04" {
		ob, _ := json.Marshal(ex.Ops)
		ok := sha1.Sum(ob)
		opsKey := hex.EncodeToString(ok[:])[:16]
		lf := filepath.Join(cacheDir, "layer-"+kind+"-"+tier+"-"+hkey+".json")
		var l layer
		if nocache || !readJSON(lf, &l) || l.OpsKey != opsKey {
			l = layer{OpsKey: opsKey}
			if kind == "C04" {
				l.PL = ExplorePL(&h, d, ex.Ops, filepath.Join(dir, "pl"), tier)
			} else {
				l.Double = ExploreDouble(&h, d, ex.Ops, root, filepath.Join(dir, "dbl"), tier, kind)
			}
			writeJSON(lf, &l)
		}
		ex.Double, ex.PL = l.Double, l.PL
	}
	os.RemoveAll(dir)
	return ex
}

type item struct {
	src string
	h   History
	raw json.RawMessage
}

// DriverMain: implrun-compatible driver for the durability group.
func DriverMain(prop string, args []string) int {
	if prop == "gen" {
		r := rng.New(1)
		h := Gen(r, GenOpts{Tier: "quick"})
		b, _ := json.MarshalIndent(h, "", " ")
		fmt.Println(string(b))
		return 0
	}
	fs := flag.NewFlagSet("crashrun", flag.ExitOnError)
	seed := fs.Uint64("seed", 1, "seed")
	n := fs.Int("n", 4, "number of generated histories")
	tier := fs.String("tier", "quick", "tier")
	out := fs.String("out", "", "output directory")
	corpus := fs.String("corpus", "", "corpus directory")
	input := fs.String("input", "", "replay input")
	stream := fs.Uint64("stream", 0, "generator stream")
	fs.String("neighbours", "", "unused")
	nocache := fs.Bool("nocache", false, "ignore the trace cache")
	fs.Parse(args)
	if *out == "" {
		fmt.Fprintln(os.Stderr, "-out required")
		return 2
	}
	os.MkdirAll(*out, 0o755)
	var items []item
	load := func(path, src string) {
		raw, err := os.ReadFile(path)
		if err != nil {
			return
		}
		var w struct {
			Input json.RawMessage `json:"input"`
		}
		if json.Unmarshal(raw, &w) == nil && len(w.Input) > 0 {
			raw = w.Input
		}
		var h History
		if json.Unmarshal(raw, &h) == nil && len(h.Buckets) > 0 {
			items = append(items, item{src, h, raw})
		}
	}
	if *input != "" {
		load(*input, "replay:"+*input)
	} else {
		if *corpus != "" {
			files, _ := filepath.Glob(filepath.Join(*corpus, "*.json"))
			sort.Strings(files)
			for _, f := range files {
				load(f, "corpus:"+filepath.Base(f))
			}
		}
		base := rng.New(*seed*0x9e3779b97f4a7c15 + *stream*0x2545f4914f6cdd1d + 777)
		for i := 0; i < *n; i++ {
			o, fi := planFor(prop, *tier, i)
			h := Gen(base.Fork(fi), o)
			b, _ := json.Marshal(h)
			items = append(items, item{fmt.Sprintf("gen:seed=%d,stream=%d,i=%d", *seed, *stream, i), h, b})
		}
	}
	// ---- explore (cached by history content + tree)
	scratch := os.Getenv("VERIF_SCRATCH")
	if scratch == "" {
		scratch = filepath.Join(filepath.Dir(filepath.Dir(filepath.Dir(self()))), "scratch")
	}
	cacheDir := filepath.Join(scratch, "durab-cache", treeKey())
	os.MkdirAll(cacheDir, 0o755)
	// keep the cache small: only the four most recently used trees
	if ents, err := os.ReadDir(filepath.Dir(cacheDir)); err == nil && len(ents) > 4 {
		type de struct {
			name string
			mod  int64
		}
		var l []de
		for _, e := range ents {
			if fi, err := e.Info(); err == nil {
				l = append(l, de{e.Name(), fi.ModTime().UnixNano()})
			}
		}
		sort.Slice(l, func(a, b int) bool { return l[a].mod > l[b].mod })
		for _, e := range l[4:] {
			if e.name != filepath.Base(cacheDir) {
				os.RemoveAll(filepath.Join(filepath.Dir(cacheDir), e.name))
			}
		}
	}
	now := time.Now()
	os.Chtimes(cacheDir, now, now)
	exs := make([]Explored, len(items))
	var wg sync.WaitGroup
	sem := make(chan struct{}, 4)
	for i := range items {
		wg.Add(1)
		go func(i int) {
			defer wg.Done()
			sem <- struct{}{}
			defer func() { <-sem }()
			work := filepath.Join(scratch, fmt.Sprintf("crashrun.%d.%d", os.Getpid(), i))
			exs[i] = exploreHistory(items[i].h, items[i].raw, cacheDir, work, *tier, 6, kindOf(prop), *nocache)
		}(i)
	}
	wg.Wait()
	// ---- cases
	jf, _ := os.Create(filepath.Join(*out, "cases.jsonl"))
	jw := bufio.NewWriter(jf)
	vf, _ := os.Create(filepath.Join(*out, "cases.v"))
	vw := bufio.NewWriter(vf)
	fmt.Fprintf(vw, "Definition cases : list Durab.case := [\n")
	first := true
	for i := range items {
		ex := &exs[i]
		h := &ex.History
		l := jline{I: i, Source: items[i].src, Input: items[i].raw, Holds: true, Tags: []string{}}
		if ex.Err != "" {
			l.Err = ex.Err
			l.Holds = false
			l.Detail = "harness: " + ex.Err
			b, _ := json.Marshal(l)
			jw.Write(b)
			jw.WriteByte('\n')
			continue
		}
		// ParseTGData joins the root with the key path; decode again with a root that makes Rel() work
		d := Decode(ex.Ops, "/", h.VrlOf, nil)
		var obs []Obs
		for j, k := range ex.Ks {
			obs = append(obs, h.ToObs(d, k, ex.Outs[j]))
		}
		sched, err := h.Sched(d)
		if h.Mode == "bg" {
			sched, err = h.SchedBG(d)
		}
		if err != nil {
			l.Err = err.Error()
		}
		if len(d.Errs) > 0 {
			l.Err += " decode: " + strings.Join(d.Errs[:min(3, len(d.Errs))], "; ")
		}
		double := "[]"
		if prop == "C34" || prop == "C02" {
			var dfails []FailRow
			var clen2 []ClenEnt
			var derrs []string
			double, dfails, clen2, derrs = h.DoubleTerm(d, ex.Double, prop)
			d.Clen = append(d.Clen, clen2...)
			l.Fails = append(l.Fails, dfails...)
			if len(derrs) > 0 {
				l.Err += " double: " + strings.Join(derrs[:min(3, len(derrs))], "; ")
			}
			for _, dc := range ex.Double {
				l.Prefixes += len(dc.Js)
			}
		}
		plterm := "[]"
		if prop == "C04" {
			var pfails []FailRow
			plterm, pfails = h.PLTerm(d, ex.PL)
			l.Fails = append(l.Fails, pfails...)
			l.Prefixes += len(ex.PL)
		}
		// oracle
		classes := map[string]int{}
		for _, f := range l.Fails {
			classes[f.Class]++
		}
		for _, o := range obs {
			var fl []Verdict
			switch prop {
			case "C01":
				fl = h.OracleC01(d, o)
			case "C02":
				fl = h.OracleC02(d, o)
			case "C03":
				fl = h.OracleC03(d, o)
			case "C05":
				fl = append(h.OracleC01(d, o), h.OracleC03(d, o)...)
			case "C35":
				fl = h.OracleC35(d, o, ex.Pre, ex.Post)
			case "C34", "C04":
				fl = h.OracleC01(d, o)
			}
			for _, v := range fl {
				l.Fails = append(l.Fails, FailRow{o.K, v.Class, v.Detail})
				classes[v.Class]++
			}
		}
		if len(l.Fails) > 0 {
			l.Holds = false
			// report the unlisted class first
			sort.SliceStable(l.Fails, func(a, b int) bool { return l.Fails[a].Class < l.Fails[b].Class })
			l.Class, l.Detail = l.Fails[0].Class, l.Fails[0].Detail
		}
		l.Prefixes, l.Events = l.Prefixes+len(ex.Ks), len(d.Evs)
		l.Tags = histTags(h, d)
		l.Nontrivial = len(d.Evs) > 20
		l.InDomain = true
		hk := sha1.Sum(items[i].raw)
		l.Key = hex.EncodeToString(hk[:8])
		l.Obs = map[string]interface{}{"events": len(d.Evs), "prefixes": len(ex.Ks), "exit": ex.Exit, "fail_classes": classes}
		b, _ := json.Marshal(l)
		jw.Write(b)
		jw.WriteByte('\n')
		if !first {
			vw.WriteString(";\n")
		}
		first = false
		vw.WriteString(CaseTerm(h, d, sched, obs, Tgid0(d), double, plterm))
	}
	vw.WriteString("\n].\n")
	vw.Flush()
	vf.Close()
	jw.Flush()
	jf.Close()
	return 0
}

func min(a, b int) int {
	if a < b {
		return a
	}
	return b
}

func histTags(h *History, d *Decoded) []string {
	t := map[string]bool{}
	for _, b := range h.Buckets {
		if b.Variable {
			t["variable"] = true
		} else {
			t["fixed"] = true
		}
	}
	for _, s := range h.Steps {
		t["step:"+s.Kind] = true
		if len(s.Batches) > 1 {
			t["multi-bucket-request"] = true
		}
	}
	years := map[int]bool{}
	for _, f := range d.Files {
		years[f.Year] = true
	}
	if len(years) > 1 {
		t["two-years"] = true
	}
	for _, rows := range h.rowsOf() {
		for _, r := range rows {
			if r.jan1 {
				t["daily-jan1"] = true
			}
			if r.xyear {
				t["cross-year-unsorted"] = true
			}
		}
	}
	blocks := map[[2]int64]bool{}
	for _, e := range d.Evs {
		if e.K == "vdata" {
			k := [2]int64{int64(e.F), e.A}
			if blocks[k] {
				t["continuation-write"] = true
			}
			blocks[k] = true
		}
	}
	var out []string
	for k := range t {
		out = append(out, k)
	}
	sort.Strings(out)
	return out
}
