package crash

import (
	"bufio"
	"bytes"
	"fmt"
	"os"
	"os/exec"
	"path/filepath"
	"regexp"
	"strconv"
	"strings"
)

// Op is one recorded event of a traced child: a file-mutating system call under the root
// (paths relative to the root), a durability barrier, or an ACK marker written by the workload.
//
//	mkdir  Path
//	creat  Path            openat(O_CREAT) that created the file (Trunc: O_TRUNC on an existing file)
//	write  Path Off Data   write at the tracked fd offset / pwrite64
//	trunc  Path Len        ftruncate
//	fsync  Path            fsync / fdatasync
//	sync                   sync / syncfs
//	rename Path To
//	unlink Path            unlink / unlinkat (file or directory)
//	ack    Ack             the workload's marker "ACK <step>" (not a mutation)
type Op struct {
	Kind string `json:"op"`
	Path string `json:"path,omitempty"`
	To   string `json:"to,omitempty"`
	Off  int64  `json:"off,omitempty"`
	Len  int64  `json:"len,omitempty"`
	Data []byte `json:"data,omitempty"`
	Ack  int    `json:"ack,omitempty"`
	Nak  bool   `json:"nak,omitempty"`
	PW   bool   `json:"pw,omitempty"` // pwrite64 (informational)
}

func (o Op) Mutating() bool { return o.Kind != "ack" && o.Kind != "fsync" && o.Kind != "sync" }

const straceSet = "openat,creat,open,write,pwrite64,read,pread64,lseek,fsync,fdatasync,sync,syncfs,ftruncate,truncate,rename,renameat,renameat2,unlink,unlinkat,rmdir,mkdir,mkdirat,close,dup,dup2,dup3"

// Trace runs argv under strace and returns the parsed ops concerning root (and the marker file).
// The child's exit code is returned too.  rawOut (optional) keeps the strace log.
func Trace(argv []string, root, ackPath, rawOut string, env []string) ([]Op, int, error) {
	return TraceFrom(argv, root, ackPath, rawOut, env, nil)
}

// TraceFrom: like Trace for a root that is not empty; existing = the paths (relative to root) present before the run.
func TraceFrom(argv []string, root, ackPath, rawOut string, env []string, existing map[string]bool) ([]Op, int, error) {
	logf := rawOut
	if logf == "" {
		f, err := os.CreateTemp("", "strace*.log")
		if err != nil {
			return nil, 0, err
		}
		f.Close()
		logf = f.Name()
		defer os.Remove(logf)
	}
	args := append([]string{"-f", "--seccomp-bpf", "-xx", "-s", "16000000", "-o", logf, "-e", "trace=" + straceSet}, argv...)
	cmd := exec.Command("strace", args...)
	cmd.Env = env
	var outb bytes.Buffer
	cmd.Stdout = &outb
	cmd.Stderr = &outb
	err := cmd.Run()
	code := 0
	if err != nil {
		if ee, ok := err.(*exec.ExitError); ok {
			code = ee.ExitCode()
		} else {
			return nil, 0, fmt.Errorf("strace: %v: %s", err, outb.String())
		}
	}
	ops, perr := ParseStrace(logf, root, ackPath, existing)
	if perr != nil {
		return nil, code, perr
	}
	return ops, code, nil
}

var (
	reLine    = regexp.MustCompile(`^(\d+)\s+(.*)$`)
	reCall    = regexp.MustCompile(`^([a-z0-9_]+)\((.*)\)\s+=\s+(-?\d+|\?)(.*)$`)
	reUnfin   = regexp.MustCompile(`^([a-z0-9_]+)\((.*) <unfinished \.\.\.>$`)
	reResumed = regexp.MustCompile(`^<\.\.\. ([a-z0-9_]+) resumed>(.*)$`)
)

func unhexStr(s string) (string, bool) {
	// "\x2f\x74..." (possibly followed by "...")
	if len(s) < 2 || s[0] != '"' {
		return "", false
	}
	end := strings.LastIndexByte(s, '"')
	if end <= 0 {
		return "", false
	}
	body := s[1:end]
	out := make([]byte, 0, len(body)/4)
	for i := 0; i < len(body); {
		if body[i] == '\\' && i+3 < len(body) && body[i+1] == 'x' {
			v, err := strconv.ParseUint(body[i+2:i+4], 16, 8)
			if err != nil {
				return "", false
			}
			out = append(out, byte(v))
			i += 4
		} else {
			out = append(out, body[i])
			i++
		}
	}
	return string(out), true
}

// splitArgs splits a syscall argument list at top-level ", " (strings contain no commas with -xx).
func splitArgs(s string) []string {
	var out []string
	depth, inq, start := 0, false, 0
	for i := 0; i < len(s); i++ {
		c := s[i]
		switch {
		case c == '"':
			inq = !inq
		case inq:
		case c == '{' || c == '[' || c == '(':
			depth++
		case c == '}' || c == ']' || c == ')':
			depth--
		case c == ',' && depth == 0:
			out = append(out, strings.TrimSpace(s[start:i]))
			start = i + 1
		}
	}
	if start < len(s) {
		out = append(out, strings.TrimSpace(s[start:]))
	}
	return out
}

type fdent struct {
	path string
	off  int64
}

// ParseStrace turns a strace -f -xx log into ops.  fds are per process (threads share the table; the
// traced children never fork another marketstore process), offsets are tracked through
// openat/lseek/read/write.
func ParseStrace(logf, root, ackPath string, existing map[string]bool) ([]Op, error) {
	f, err := os.Open(logf)
	if err != nil {
		return nil, err
	}
	defer f.Close()
	root = filepath.Clean(root)
	sc := bufio.NewScanner(f)
	sc.Buffer(make([]byte, 1<<20), 1<<30)
	fds := map[int]*fdent{}
	exists := map[string]bool{}
	for k, v := range existing {
		exists[k] = v
	}
	pending := map[string]string{} // pid -> "name(args" of an unfinished call
	var ops []Op
	rel := func(p string) (string, bool) {
		p = filepath.Clean(p)
		if p == root {
			return ".", true
		}
		if strings.HasPrefix(p, root+"/") {
			return p[len(root)+1:], true
		}
		return "", false
	}
	handle := func(name, argstr, ret string) error {
		if ret == "?" {
			return nil
		}
		rv, _ := strconv.ParseInt(ret, 10, 64)
		a := splitArgs(argstr)
		atoi := func(s string) int64 {
			s = strings.TrimSpace(s)
			v, _ := strconv.ParseInt(s, 0, 64)
			return v
		}
		switch name {
		case "openat", "open", "creat":
			if rv < 0 {
				return nil
			}
			var ps, flags string
			switch name {
			case "openat":
				if len(a) < 3 {
					return nil
				}
				ps, flags = a[1], a[2]
			case "open":
				ps, flags = a[0], a[1]
			default:
				ps, flags = a[0], "O_CREAT|O_WRONLY|O_TRUNC"
			}
			p, ok := unhexStr(ps)
			if !ok {
				return fmt.Errorf("bad path in %s(%s)", name, argstr)
			}
			if !filepath.IsAbs(p) {
				// relative to a directory descriptor (os.RemoveAll walks with openat/unlinkat)
				d, ok := fds[int(atoi(a[0]))]
				if name != "openat" || !ok {
					return nil
				}
				p = filepath.Join(d.path, p)
			}
			p = filepath.Clean(p)
			fds[int(rv)] = &fdent{path: p}
			if strings.Contains(flags, "O_APPEND") {
				fds[int(rv)].off = -1
			}
			if r, ok := rel(p); ok {
				if strings.Contains(flags, "O_CREAT") && !exists[r] {
					exists[r] = true
					ops = append(ops, Op{Kind: "creat", Path: r})
				} else if strings.Contains(flags, "O_TRUNC") && !strings.Contains(flags, "O_RDONLY") {
					ops = append(ops, Op{Kind: "trunc", Path: r, Len: 0})
				}
			}
		case "close":
			delete(fds, int(atoi(a[0])))
		case "dup", "dup2", "dup3":
			if rv >= 0 {
				if e, ok := fds[int(atoi(a[0]))]; ok {
					fds[int(rv)] = e
				}
			}
		case "lseek":
			if e, ok := fds[int(atoi(a[0]))]; ok && rv >= 0 {
				e.off = rv
			}
		case "read":
			if e, ok := fds[int(atoi(a[0]))]; ok && rv > 0 {
				e.off += rv
			}
		case "write", "pwrite64":
			e, ok := fds[int(atoi(a[0]))]
			if !ok || rv < 0 {
				return nil
			}
			data, ok2 := unhexStr(a[1])
			if !ok2 {
				return fmt.Errorf("bad data in %s", name)
			}
			if int64(len(data)) < rv {
				return fmt.Errorf("%s: string truncated by strace (%d < %d)", name, len(data), rv)
			}
			data = data[:rv]
			off := e.off
			if name == "pwrite64" {
				off = atoi(a[3])
			} else {
				e.off += rv
			}
			if e.path == ackPath {
				for _, ln := range strings.Split(strings.TrimSpace(data), "\n") {
					fs := strings.Fields(ln)
					if len(fs) == 2 && (fs[0] == "ACK" || fs[0] == "NAK") {
						n, _ := strconv.Atoi(fs[1])
						ops = append(ops, Op{Kind: "ack", Ack: n, Nak: fs[0] == "NAK"})
					}
				}
				return nil
			}
			if r, ok := rel(e.path); ok {
				if off < 0 {
					return fmt.Errorf("write through O_APPEND fd on %s: not modelled", r)
				}
				ops = append(ops, Op{Kind: "write", Path: r, Off: off, Data: []byte(data), PW: name == "pwrite64"})
			}
		case "ftruncate":
			if e, ok := fds[int(atoi(a[0]))]; ok && rv == 0 {
				if r, ok := rel(e.path); ok {
					ops = append(ops, Op{Kind: "trunc", Path: r, Len: atoi(a[1])})
				}
			}
		case "truncate":
			if p, ok := unhexStr(a[0]); ok && rv == 0 {
				if r, ok := rel(p); ok {
					ops = append(ops, Op{Kind: "trunc", Path: r, Len: atoi(a[1])})
				}
			}
		case "fsync", "fdatasync":
			if e, ok := fds[int(atoi(a[0]))]; ok && rv == 0 {
				if r, ok := rel(e.path); ok {
					ops = append(ops, Op{Kind: "fsync", Path: r})
				}
			}
		case "sync", "syncfs":
			ops = append(ops, Op{Kind: "sync"})
		case "mkdir", "mkdirat":
			if rv != 0 {
				return nil
			}
			ps := a[0]
			if name == "mkdirat" {
				ps = a[1]
			}
			if p, ok := unhexStr(ps); ok {
				if r, ok := rel(p); ok {
					exists[r] = true
					ops = append(ops, Op{Kind: "mkdir", Path: r})
				}
			}
		case "unlink", "unlinkat", "rmdir":
			if rv != 0 {
				return nil
			}
			ps := a[0]
			if name == "unlinkat" {
				ps = a[1]
			}
			if p, ok := unhexStr(ps); ok {
				if !filepath.IsAbs(p) && name == "unlinkat" {
					if d, ok := fds[int(atoi(a[0]))]; ok {
						p = filepath.Join(d.path, p)
					}
				}
				if r, ok := rel(p); ok {
					delete(exists, r)
					ops = append(ops, Op{Kind: "unlink", Path: r})
				}
			}
		case "rename", "renameat", "renameat2":
			if rv != 0 {
				return nil
			}
			s1, s2 := a[0], a[1]
			if name != "rename" {
				s1, s2 = a[1], a[3]
			}
			p1, ok1 := unhexStr(s1)
			p2, ok2 := unhexStr(s2)
			if ok1 && ok2 {
				r1, in1 := rel(p1)
				r2, in2 := rel(p2)
				if in1 && in2 {
					delete(exists, r1)
					exists[r2] = true
					ops = append(ops, Op{Kind: "rename", Path: r1, To: r2})
				} else if in1 || in2 {
					return fmt.Errorf("rename across the root: %s -> %s", p1, p2)
				}
			}
		}
		return nil
	}
	for sc.Scan() {
		m := reLine.FindStringSubmatch(sc.Text())
		if m == nil {
			continue
		}
		pid, rest := m[1], m[2]
		if strings.HasPrefix(rest, "---") || strings.HasPrefix(rest, "+++") {
			continue
		}
		if u := reUnfin.FindStringSubmatch(rest); u != nil {
			pending[pid] = u[1] + "(" + u[2]
			continue
		}
		if r := reResumed.FindStringSubmatch(rest); r != nil {
			p, ok := pending[pid]
			if !ok {
				continue
			}
			delete(pending, pid)
			rest = p + r[2]
		}
		c := reCall.FindStringSubmatch(rest)
		if c == nil {
			continue
		}
		if err := handle(c[1], c[2], c[3]); err != nil {
			return nil, err
		}
	}
	return ops, sc.Err()
}
