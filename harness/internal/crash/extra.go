package crash

import (
	"encoding/hex"
	"fmt"
	"os"
	"path/filepath"
	"reflect"
	"sort"
	"strings"
	"sync"

	"verifharness/internal/cq"
)

// ---------------------------------------------------------------- C35: graceful shutdown

func sameRows(a, b []QRow) bool {
	if len(a) != len(b) {
		return false
	}
	for i := range a {
		if a[i] != b[i] {
			return false
		}
	}
	return true
}

// OracleC35: on the final image (after the shutdown step) the restart returns, for every bucket, exactly
// what the query returned just before the shutdown.  When requests were still queued at the shutdown (steps
// of kind "enqueue") the reference is the query right after Shutdown() returned instead: the shutdown branch
// applies the queued commands, the restart must neither lose nor repeat them.
func (h *History) OracleC35(d *Decoded, o Obs, pre, after []QBucket) (fails []Verdict) {
	if o.K != len(d.Evs) {
		return nil
	}
	if o.Class != 0 {
		return []Verdict{{false, "", fmt.Sprintf("restart after graceful shutdown fails: %s", o.Err)}}
	}
	pending := false
	for si := range h.Steps {
		if h.Steps[si].Kind == "enqueue" {
			pending = true
		}
	}
	when := "before shutdown"
	if pending {
		if after == nil {
			return []Verdict{{false, "", "no query results after Shutdown() (the workload did not complete)"}}
		}
		pre, when = after, "after the shutdown completed"
		// every queued row must have been applied by the shutdown
		// rows are identified by their values (every generated row carries its serial number): the time a
		// variable-length record comes back with is rounded by the interval-ticks encoding, possibly into
		// the previous second (another property's business)
		type rowKey struct{ vals string }
		have := map[string]map[rowKey]int{}
		for i := range after {
			m := map[rowKey]int{}
			for _, r := range after[i].Rows {
				m[rowKey{r.Vals}]++
			}
			have[after[i].Key] = m
		}
		for si := range h.Steps {
			if h.Steps[si].Kind != "enqueue" {
				continue
			}
			for _, bt := range h.Steps[si].Batches {
				b := &h.Buckets[bt.Bucket]
				if !b.Variable {
					continue // a fixed slot may have been overwritten by a later queued row
				}
				for _, r := range bt.Rows {
					q := rowKey{hex.EncodeToString(r.Vals)}
					if have[b.Key][q] == 0 {
						fails = append(fails, Verdict{false, "", fmt.Sprintf("bucket %s: a row queued before the shutdown is not there after it", b.Key)})
					}
				}
			}
		}
	}
	post := map[string]*QBucket{}
	for i := range o.Raw.Buckets {
		post[o.Raw.Buckets[i].Key] = &o.Raw.Buckets[i]
	}
	for i := range pre {
		p := &pre[i]
		q, ok := post[p.Key]
		switch {
		case !ok:
			fails = append(fails, Verdict{false, "", "bucket " + p.Key + " missing after restart"})
		case q.Err != "" || q.Fatal:
			fails = append(fails, Verdict{false, "", "query of " + p.Key + " fails after restart: " + q.Err})
		case p.Err != "":
			// the query already failed before the shutdown: not this property's business
		case !sameRows(p.Rows, q.Rows):
			fails = append(fails, Verdict{false, "", fmt.Sprintf("bucket %s: %d rows %s, %d after restart (or different rows)",
				p.Key, len(p.Rows), when, len(q.Rows))})
		}
	}
	return
}

// ---------------------------------------------------------------- C34: crashes during start-up replay

// DoubleCrash: the recovery of the image of prefix K1 traced under strace (Ops2), and for prefixes Js of
// THAT trace the outcome of a second recovery on (K1 ops of the run + j ops of the first recovery).
type DoubleCrash struct {
	K1    int          `json:"k1"`
	Ops2  []Op         `json:"ops2"`
	Exit2 int          `json:"exit2"`
	Js    []int        `json:"js"`
	Outs  []RecoverOut `json:"outs"`
	Err   string       `json:"err,omitempty"`
}

// firstCrashPoints: crash points of the run whose recovery is worth crashing again: right after the WAL
// fsync of a flush (nothing applied yet), in the middle of its primary writes, and the end of the run.
// Points with a torn WAL tail, inside a continuation window or inside a year-file creation are left to
// C01-C03 (the record-level model does not follow the byte-level scanner over a torn tail that later
// appends bury, see notes/C34.md).
func firstCrashPoints(d *Decoded, max int) []int {
	var cand []int
	n := len(d.Evs)
	for i, e := range d.Evs {
		if e.K == "walfsync" && i > 0 && d.Evs[i-1].K == "walapp" && d.Evs[i-1].Rec.T == "txn" && d.Evs[i-1].Rec.Dest == 0 && d.Evs[i-1].Rec.St == 2 {
			cand = append(cand, i+1)
			// middle of the primary phase: after the first complete primary write
			j := i + 1
			if j < n && d.Evs[j].K == "pw" {
				cand = append(cand, j+1)
			} else if j+1 < n && d.Evs[j].K == "vdata" && d.Evs[j+1].K == "vindex" {
				cand = append(cand, j+2)
			}
		}
	}
	cand = append(cand, n)
	sort.Ints(cand)
	// keep the last ones (most state), distinct
	var out []int
	seen := map[int]bool{}
	for i := len(cand) - 1; i >= 0 && len(out) < max; i-- {
		if !seen[cand[i]] {
			seen[cand[i]] = true
			out = append(out, cand[i])
		}
	}
	sort.Ints(out)
	return out
}

// ExploreDouble: see DoubleCrash.
func ExploreDouble(h *History, d *Decoded, ops []Op, root, dir, tier, kind string) []DoubleCrash {
	maxK1, maxJ := 2, 50
	if tier == "thorough" {
		maxK1, maxJ = 5, 150
	}
	if kind == "C02" {
		// C02 explores every prefix of the run as well; of the recovery only the one of the final image
		maxK1, maxJ = 1, 40
		if tier == "thorough" {
			maxK1, maxJ = 2, 120
		}
	}
	var res []DoubleCrash
	for _, k1 := range firstCrashPoints(d, maxK1) {
		dc := DoubleCrash{K1: k1}
		d1 := filepath.Join(dir, fmt.Sprintf("first%05d", k1))
		os.RemoveAll(d1)
		if err := Materialise(d1, ops, k1); err != nil {
			dc.Err = "materialise: " + err.Error()
			res = append(res, dc)
			continue
		}
		existing := map[string]bool{}
		filepath.Walk(d1, func(p string, fi os.FileInfo, err error) error {
			if err == nil && p != d1 {
				if r, e := filepath.Rel(d1, p); e == nil {
					existing[r] = true
				}
			}
			return nil
		})
		ops2, code, err := TraceFrom([]string{self(), "_recover", fmt.Sprint(InstanceID2), d1}, d1, "", "", childEnv(), existing)
		if err != nil {
			dc.Err = "trace recovery: " + err.Error()
			res = append(res, dc)
			continue
		}
		dc.Ops2, dc.Exit2 = ops2, code
		os.RemoveAll(d1)
		n2 := len(ops2)
		if n2+1 <= maxJ {
			for j := 0; j <= n2; j++ {
				dc.Js = append(dc.Js, j)
			}
		} else {
			step := (n2 + maxJ - 1) / maxJ
			for j := 0; j <= n2; j += step {
				dc.Js = append(dc.Js, j)
			}
			if dc.Js[len(dc.Js)-1] != n2 {
				dc.Js = append(dc.Js, n2)
			}
		}
		all := append(append([]Op{}, ops[:k1]...), ops2...)
		dc.Outs = make([]RecoverOut, len(dc.Js))
		var wg sync.WaitGroup
		const workers = 6
		chunk := (len(dc.Js) + workers - 1) / workers
		for w := 0; w*chunk < len(dc.Js); w++ {
			lo, hi := w*chunk, (w+1)*chunk
			if hi > len(dc.Js) {
				hi = len(dc.Js)
			}
			wg.Add(1)
			go func(lo, hi int) {
				defer wg.Done()
				var dirs []string
				for i := lo; i < hi; i++ {
					p := filepath.Join(dir, fmt.Sprintf("second%05d_%05d", k1, dc.Js[i]))
					os.RemoveAll(p)
					if err := Materialise(p, all, k1+dc.Js[i]); err != nil {
						dc.Outs[i] = RecoverOut{Class: "panic", Err: "materialise: " + err.Error()}
					}
					dirs = append(dirs, p)
				}
				outs := RecoverImages(dirs, InstanceID3)
				for i := lo; i < hi; i++ {
					if dc.Outs[i].Err == "" {
						dc.Outs[i] = outs[i-lo]
					}
					os.RemoveAll(dirs[i-lo])
				}
			}(lo, hi)
		}
		wg.Wait()
		res = append(res, dc)
	}
	return res
}

// DoubleTerm prints the [dbl] records of a case and returns the oracle failures of the double crashes.
func (h *History) DoubleTerm(d *Decoded, dbl []DoubleCrash, prop string) (string, []FailRow, []ClenEnt, []string) {
	var terms []string
	var fails []FailRow
	var clen []ClenEnt
	var errs []string
	for _, dc := range dbl {
		if dc.Err != "" {
			errs = append(errs, fmt.Sprintf("k1=%d: %s", dc.K1, dc.Err))
			continue
		}
		d2 := Decode(dc.Ops2, "/", h.VrlOf, d)
		evs2 := d2.Evs
		for _, e := range d2.Errs {
			errs = append(errs, fmt.Sprintf("k1=%d recovery trace: %s", dc.K1, e))
		}
		clen = append(clen, d2.Clen[len(d.Clen):]...)
		var obs []string
		for i, j := range dc.Js {
			o := h.ToObs(d, dc.K1, dc.Outs[i])
			// the oracles see the combined trace: K1 calls of the run, then j calls of the first recovery
			d3 := &Decoded{Evs: append(append([]Ev{}, d.Evs[:dc.K1]...), evs2[:j]...), Files: d.Files, FID: d.FID, WID: d2.WID, NWal: d2.NWal}
			for fi := range d3.Files {
				// files created after K1 in the run do not exist in this image
				if d3.Files[fi].CreatAt >= dc.K1 {
					f := d3.Files[fi]
					f.CreatAt, f.HdrAt, f.DoneAt = 1<<30, -1, -1
					d3.Files = append(append([]FileInfo{}, d3.Files[:fi]...), append([]FileInfo{f}, d3.Files[fi+1:]...)...)
				}
			}
			o.K = dc.K1 + j
			var fl []Verdict
			if prop != "C02" { // "no acknowledged write lost" is C01's/C34's statement, not C02's
				fl = append(fl, h.OracleC01(d3, o)...)
			}
			fl = append(fl, h.OracleC02(d3, o)...)
			if o.Class == 0 {
				if msg := h.reappliedTwice(d, dc.K1, o); msg != "" {
					fl = append(fl, Verdict{false, "", msg})
				}
				for _, f := range dc.Outs[i].Files {
					// a file in state replayed-not-deleted is renamed *.tmp by the next start-up ("No Replay Needed" is a
					// ReplayError{Cont}); it is never looked at again.  Any other leftover *.walfile is a failure.
					if f != "OWN" && !strings.HasSuffix(f, ".tmp") {
						fl = append(fl, Verdict{false, "", fmt.Sprintf("after the second start-up the WAL file %s is still there", f)})
					}
				}
			}
			for _, v := range fl {
				fails = append(fails, FailRow{dc.K1*100000 + j, v.Class, fmt.Sprintf("first crash k1=%d, second crash after %d calls of the recovery: %s", dc.K1, j, v.Detail)})
			}
			o.K = j
			obs = append(obs, o.Term())
		}
		terms = append(terms, cq.Rec(cq.F("d_k1", cq.Nat(dc.K1)), cq.F("d_own3", cq.N(uint64(d.NWal+1))),
			cq.F("d_rtrace", EvsTerm(evs2)), cq.F("d_obs", cq.List(obs))))
	}
	return cq.List(terms), fails, clen, errs
}

// reappliedTwice: the protocol writes a checkpoint record after EVERY replayed transaction group, so a crash
// during replay can make the next start-up re-apply at most ONE group a second time (the one in flight).  For
// every variable-length TG that was committed and not checkpointed at the first crash: copies = multiplicity of
// its records after the second recovery; it was applied once by the run (if its primary writes were complete at
// the first crash) and once by a replay; a third copy means it was replayed twice.  More than one such TG is a
// failure of "replayed once" beyond the known re-append defect.
func (h *History) reappliedTwice(d *Decoded, k1 int, o Obs) string {
	got := h.recovered(d, o)
	type tgInfo struct {
		id      int64
		applied int // complete applications by the run before k1
		cmds    []Cmd
	}
	var tgs []tgInfo
	n := k1
	if n > len(d.Evs) {
		n = len(d.Evs)
	}
	for i := 0; i < n; i++ {
		e := d.Evs[i]
		if e.K == "walapp" && e.Rec.T == "txn" && e.Rec.Dest == 1 && e.Rec.St == 2 {
			tgs = nil // a completed checkpoint covers everything before it
		}
		if e.K == "waltrunc" {
			tgs = nil
		}
		if e.K == "walapp" && e.Rec.T == "body" {
			t := tgInfo{id: e.Rec.Tid}
			for _, c := range e.Rec.Cmds {
				if c.Var {
					t.cmds = append(t.cmds, c)
				}
			}
			// its primary phase: the vindex events up to the next non-primary event after the fsync
			done := 0
			j := i + 1
			for j < n && d.Evs[j].K != "walfsync" {
				j++
			}
			for j++; j < n && (d.Evs[j].K == "pw" || d.Evs[j].K == "vdata" || d.Evs[j].K == "vindex"); j++ {
				if d.Evs[j].K == "vindex" {
					done++
				}
			}
			if len(t.cmds) > 0 && done == len(t.cmds) {
				t.applied = 1
			}
			if len(t.cmds) > 0 && (i+1 < n && d.Evs[i+1].K == "walapp" && d.Evs[i+1].Rec.T == "sum") {
				tgs = append(tgs, t)
			}
		}
	}
	twice := 0
	var ids []int64
	for _, t := range tgs {
		extraMin := 1 << 30
		for _, c := range t.cmds {
			if c.F >= len(d.Files) {
				continue
			}
			fi := d.Files[c.F]
			bi := -1
			for x := range h.Buckets {
				if h.Buckets[x].Key == fi.Bucket {
					bi = x
				}
			}
			if bi < 0 || o.B[bi].Code != 1 {
				continue
			}
			key := slotKey{bi, fi.Year, c.Index}
			// how often does this command write each of its records (a request may repeat a value)?
			for _, r := range c.Data {
				if len(r) < 4 {
					continue
				}
				v := hex.EncodeToString(r[:len(r)-4])
				same := 0
				for _, t2 := range tgs {
					for _, c2 := range t2.cmds {
						if c2.F == c.F && c2.Index == c.Index {
							for _, r2 := range c2.Data {
								if len(r2) >= 4 && hex.EncodeToString(r2[:len(r2)-4]) == v {
									same++
								}
							}
						}
					}
				}
				if same != 1 {
					continue // not a distinguishing record
				}
				extra := count(got[key], v) - t.applied
				if extra < extraMin {
					extraMin = extra
				}
			}
		}
		if extraMin != 1<<30 && extraMin >= 2 {
			twice++
			ids = append(ids, t.id)
		}
	}
	if twice > 1 {
		return fmt.Sprintf("after a crash during replay %d transaction groups were re-applied a second time (TG ids %v); the per-group checkpoint allows at most one", twice, ids)
	}
	return ""
}

var _ = reflect.DeepEqual
