package crash

import (
	"fmt"
	"os"
	"path/filepath"
	"sort"
	"sync"

	"verifharness/internal/cq"
)

// C04: bounded enumeration of power-loss images.  Mirror of Model/PowerLoss.v: a data write is durable at
// crash point k iff an fsync of its WAL file / a global sync follows it before k; a write that is not durable
// may be lost; a lost WAL append takes the later appends to that file with it (lengths follow data).

// PLObs: the real recovery on the image of prefix K with the ops at positions Drop lost.
type PLObs struct {
	K    int        `json:"k"`
	Drop []int      `json:"drop"`
	Out  RecoverOut `json:"out"`
}

func isDataWrite(e Ev) bool {
	switch e.K {
	case "walapp", "walstatus", "pw", "vdata", "vindex":
		return true
	}
	return false
}

func durableAt(evs []Ev, i, k int) bool {
	e := evs[i]
	if !isDataWrite(e) {
		return true
	}
	for j := i + 1; j < k; j++ {
		b := evs[j]
		if b.K == "sync" {
			return true
		}
		if b.K == "walfsync" && (e.K == "walapp" || e.K == "walstatus") && b.W == e.W {
			return true
		}
	}
	return false
}

// MaterialiseDrop: like Materialise, skipping the ops at the positions in drop.
func MaterialiseDrop(dir string, ops []Op, k int, drop map[int]bool) error {
	if err := os.MkdirAll(dir, 0o770); err != nil {
		return err
	}
	for i := 0; i < k && i < len(ops); i++ {
		if drop[i] {
			continue
		}
		if err := ApplyOp(dir, ops[i]); err != nil {
			return fmt.Errorf("op %d (%s %s): %w", i, ops[i].Kind, ops[i].Path, err)
		}
	}
	return nil
}

// plCandidates: crash points worth a power failure, and for each the drop sets to try.
func plCandidates(d *Decoded, maxImages int) (ks []int, drops [][]int) {
	n := len(d.Evs)
	var points []int
	for i, e := range d.Evs {
		if e.K == "ack" || e.K == "pw" || e.K == "vindex" || e.K == "vdata" || e.K == "sync" || e.K == "walfsync" ||
			(e.K == "walapp" && e.Rec.T == "txn" && e.Rec.Dest == 1) { // also between the checkpoint's PREPARING record and its sync
			points = append(points, i+1)
		}
	}
	points = append(points, n)
	sort.Ints(points)
	seenK := map[int]bool{}
	type cand struct {
		k    int
		drop []int
	}
	var all []cand
	for _, k := range points {
		if seenK[k] {
			continue
		}
		seenK[k] = true
		var vol []int
		for i := 0; i < k; i++ {
			if isDataWrite(d.Evs[i]) && !durableAt(d.Evs, i, k) {
				vol = append(vol, i)
			}
		}
		closure := func(set []int) []int {
			m := map[int]bool{}
			for _, i := range set {
				m[i] = true
				if d.Evs[i].K == "walapp" {
					for j := i + 1; j < k; j++ {
						if d.Evs[j].K == "walapp" && d.Evs[j].W == d.Evs[i].W {
							m[j] = true
						}
					}
				}
			}
			var out []int
			for i := range m {
				out = append(out, i)
			}
			sort.Ints(out)
			return out
		}
		// every single volatile write, and the pairs among the last four
		for _, i := range vol {
			all = append(all, cand{k, closure([]int{i})})
		}
		last := vol
		if len(last) > 4 {
			last = last[len(last)-4:]
		}
		for a := 0; a < len(last); a++ {
			for b := a + 1; b < len(last); b++ {
				all = append(all, cand{k, closure([]int{last[a], last[b]})})
			}
		}
	}
	// distinct, later crash points first (more state), capped
	seen := map[string]bool{}
	var uniq []cand
	for i := len(all) - 1; i >= 0; i-- {
		key := fmt.Sprint(all[i].k, all[i].drop)
		if !seen[key] {
			seen[key] = true
			uniq = append(uniq, all[i])
		}
	}
	if len(uniq) > maxImages {
		// keep a spread: every (len/max)-th
		step := float64(len(uniq)) / float64(maxImages)
		var pick []cand
		for x := 0.0; int(x) < len(uniq) && len(pick) < maxImages; x += step {
			pick = append(pick, uniq[int(x)])
		}
		uniq = pick
	}
	for _, c := range uniq {
		ks = append(ks, c.k)
		drops = append(drops, c.drop)
	}
	return
}

// ExplorePL materialises the power-loss images and runs the REAL recovery on each.
func ExplorePL(h *History, d *Decoded, ops []Op, dir, tier string) []PLObs {
	max := 100
	if tier == "thorough" {
		max = 600
	}
	ks, drops := plCandidates(d, max)
	res := make([]PLObs, len(ks))
	var wg sync.WaitGroup
	const workers = 6
	chunk := (len(ks) + workers - 1) / workers
	if chunk < 1 {
		chunk = 1
	}
	for w := 0; w*chunk < len(ks); w++ {
		lo, hi := w*chunk, (w+1)*chunk
		if hi > len(ks) {
			hi = len(ks)
		}
		wg.Add(1)
		go func(lo, hi int) {
			defer wg.Done()
			var dirs []string
			bad := map[int]string{}
			for i := lo; i < hi; i++ {
				p := filepath.Join(dir, fmt.Sprintf("pl%05d", i))
				os.RemoveAll(p)
				dm := map[int]bool{}
				for _, x := range drops[i] {
					dm[x] = true
				}
				if err := MaterialiseDrop(p, ops, ks[i], dm); err != nil {
					bad[i] = err.Error()
				}
				dirs = append(dirs, p)
			}
			outs := RecoverImages(dirs, InstanceID2)
			for i := lo; i < hi; i++ {
				res[i] = PLObs{K: ks[i], Drop: drops[i], Out: outs[i-lo]}
				if msg, ok := bad[i]; ok {
					res[i].Out = RecoverOut{Class: "panic", Err: "materialise: " + msg}
				}
				os.RemoveAll(dirs[i-lo])
			}
		}(lo, hi)
	}
	wg.Wait()
	return res
}

// PLTerm prints the [plobs] list of a case and evaluates the C04 oracle on the real outcomes.
func (h *History) PLTerm(d *Decoded, pl []PLObs) (string, []FailRow) {
	var terms []string
	var fails []FailRow
	for _, p := range pl {
		o := h.ToObs(d, p.K, p.Out)
		// acknowledged writes must survive; the server must come back
		var fl []Verdict
		fl = append(fl, h.OracleC01(d, o)...)
		fl = append(fl, h.OracleC03(d, o)...)
		lostVar := false
		for _, i := range p.Drop {
			if d.Evs[i].K == "vdata" || d.Evs[i].K == "vindex" {
				lostVar = true
			}
		}
		for _, v := range fl {
			c := v.Class
			if c == "" && lostVar {
				c = "powerloss-variable-write-lost"
			}
			fails = append(fails, FailRow{p.K, c, fmt.Sprintf("power failure after %d calls, writes at positions %v lost: %s", p.K, p.Drop, v.Detail)})
		}
		var ds []string
		for _, i := range p.Drop {
			ds = append(ds, cq.Nat(i))
		}
		terms = append(terms, cq.Rec(cq.F("p_drop", cq.List(ds)), cq.F("p_obs", o.Term())))
	}
	return cq.List(terms), fails
}
