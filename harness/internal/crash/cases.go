package crash

import (
	"encoding/binary"
	"encoding/hex"
	"fmt"
	"os"
	"path/filepath"
	"sort"
	"strings"
	"sync"
	"time"

	"github.com/alpacahq/marketstore/v4/utils"
	"github.com/alpacahq/marketstore/v4/utils/io"

	"verifharness/internal/cq"
)

// ---------------------------------------------------------------- history -> schedule (model input)

type bucketInfo struct {
	tf     time.Duration
	recLen int32
	vrl    int
	meta   int64 // len(dsv bytes); the path length is added per file
	valLen int
}

func elemType(t string) io.EnumElementType {
	switch t {
	case "int32":
		return io.INT32
	case "float32":
		return io.FLOAT32
	case "int64":
		return io.INT64
	}
	return io.FLOAT64
}

func (h *History) info(b *Bucket) bucketInfo {
	utils.InstanceConfig.Timezone = time.UTC
	parts := strings.Split(b.Key, "/")
	tf := utils.TimeframeFromString(parts[1])
	names := []string{"Epoch"}
	types := []io.EnumElementType{io.INT64}
	for _, c := range b.Cols {
		names = append(names, c.Name)
		types = append(types, elemType(c.Type))
	}
	dsv, _ := io.DSVToBytes(io.NewDataShapeVector(names, types))
	bi := bucketInfo{tf: tf.Duration, valLen: b.ValLen(), meta: int64(len(dsv))}
	if b.Variable {
		bi.recLen = 24
		bi.vrl = b.ValLen() + 4
	} else {
		bi.recLen = int32(io.AlignedSize(b.ValLen())) + 8
	}
	return bi
}

func (h *History) VrlOf(bucket string) int {
	for i := range h.Buckets {
		if h.Buckets[i].Key == bucket {
			if h.Buckets[i].Variable {
				return h.Buckets[i].ValLen() + 4
			}
			return 0
		}
	}
	return 0
}

// rowTerm computes the slot of one row with the REAL exported time arithmetic and prints the wrow.
func rowSlot(bi bucketInfo, b *Bucket, r Row) (year int, index, off int64, rec []byte) {
	t := time.Unix(r.Epoch, int64(r.Nanos)).UTC()
	if !b.Variable {
		t = time.Unix(r.Epoch, 0).UTC()
	}
	year = t.Year()
	index = io.TimeToIndex(t, bi.tf)
	off = io.IndexToOffset(index, bi.recLen)
	rec = append([]byte{}, r.Vals...)
	if b.Variable {
		intervals := utils.Day.Nanoseconds() / bi.tf.Nanoseconds()
		tk := io.GetIntervalTicks32Bit(t, index, intervals)
		var tb [4]byte
		binary.LittleEndian.PutUint32(tb[:], tk)
		rec = append(rec, tb[:]...)
	}
	return
}

func (h *History) batchTerm(d *Decoded, bt *Batch) (string, []int) {
	b := &h.Buckets[bt.Bucket]
	bi := h.info(b)
	var rows []string
	var fids []int
	for _, r := range bt.Rows {
		year, index, off, rec := rowSlot(bi, b, r)
		path := fmt.Sprintf("%s/%d.bin", b.Key, year)
		f, ok := d.FID[path]
		if !ok {
			f = 9999
		}
		fids = append(fids, f)
		rows = append(rows, cq.Rec(cq.F("r_year", cq.Z(int64(year))), cq.F("r_fid", cq.N(uint64(f))),
			cq.F("r_index", cq.Z(index)), cq.F("r_off", cq.Z(off)), cq.F("r_rec", byteTerm(rec))))
	}
	pathLen := int64(len(b.Key) + len("/2019.bin"))
	return cq.Rec(cq.F("b_kind", kindTerm(b.Variable)), cq.F("b_vrl", cq.Z(int64(bi.vrl))),
		cq.F("b_meta", cq.Z(bi.meta+pathLen)), cq.F("b_rows", cq.List(rows))), fids
}

func fidList(l []int) string {
	var it []string
	for _, f := range l {
		it = append(it, cq.N(uint64(f)))
	}
	return cq.List(it)
}

// Sched derives the model's schedule for a synchronous-mode history from the history itself; the
// only things taken from the recording are those the model leaves open: the catalog calls before a
// flush, the order of buckets inside a request (Go map order of the ColumnSeriesMap) and the order
// of files in the primary-write phase (Go map order of writesPerFile).
func (h *History) Sched(d *Decoded) (string, error) {
	evs := d.Evs
	pos := 0
	// skip NewWALFile's three calls
	for pos < len(evs) && (evs[pos].K == "walcreate" || evs[pos].K == "walstatus" || evs[pos].K == "walfsync") && pos < 3 {
		pos++
	}
	var out []string
	next := Tgid0(d) // TG id the next flush will use if no timer flush intervenes
	for si := 0; si < len(h.Steps); si++ {
		st := &h.Steps[si]
		switch st.Kind {
		case "write":
			// segment up to and including this step's ack
			end := pos
			for end < len(evs) && !(evs[end].K == "ack" && evs[end].Ack == si) {
				end++
			}
			if end >= len(evs) {
				return "", fmt.Errorf("step %d: no ACK in the recording", si)
			}
			seg := evs[pos:end]
			var pre []Ev
			j := 0
			for j < len(seg) && (seg[j].K == "cat" || seg[j].K == "create" || seg[j].K == "filenew" || seg[j].K == "filehdr" || seg[j].K == "filedel") {
				pre = append(pre, seg[j])
				j++
			}
			// bucket order: first appearance in the TG body; file order: first appearance among primary writes
			var bodyFiles, primFiles []int
			seen := map[int]bool{}
			for _, e := range seg[j:] {
				if e.K == "walapp" && e.Rec.T == "body" {
					for _, c := range e.Rec.Cmds {
						bodyFiles = append(bodyFiles, c.F)
					}
					// background mode: every timer flush that found an empty queue advanced the TG id by one
					for ; next < e.Rec.Tid && e.Rec.Tid-next < 100000; next++ {
						out = append(out, "(SFlush [])")
					}
					next = e.Rec.Tid + 1
				}
				if e.K == "pw" || e.K == "vdata" || e.K == "vindex" {
					if !seen[e.F] {
						seen[e.F] = true
						primFiles = append(primFiles, e.F)
					}
				}
			}
			type bt struct {
				term string
				key  int
			}
			var bts []bt
			for bi := range st.Batches {
				term, fids := h.batchTerm(d, &st.Batches[bi])
				key := 1 << 30
				for p, f := range bodyFiles {
					for _, g := range fids {
						if f == g && p < key {
							key = p
						}
					}
				}
				bts = append(bts, bt{term, key})
			}
			sort.SliceStable(bts, func(a, b int) bool { return bts[a].key < bts[b].key })
			var terms []string
			for _, b := range bts {
				terms = append(terms, b.term)
			}
			out = append(out, fmt.Sprintf("(SWrite %s %s %s %s)", EvsTerm(pre), cq.List(terms), fidList(primFiles), cq.Nat(si)))
			pos = end + 1
		case "checkpoint":
			rot := si+1 < len(h.Steps) && h.Steps[si+1].Kind == "rotate"
			out = append(out, fmt.Sprintf("(SCheckpoint %s)", cq.Bool(rot)))
			// consume: up to 3 checkpoint events (+3 rotate)
			for pos < len(evs) && evs[pos].K != "ack" && (evs[pos].K == "walapp" && evs[pos].Rec.T == "txn" && evs[pos].Rec.Dest == 1 || evs[pos].K == "sync") {
				pos++
			}
			if rot {
				for pos < len(evs) && (evs[pos].K == "waltrunc" || evs[pos].K == "walstatus" || evs[pos].K == "walfsync") {
					pos++
				}
				si++
			}
		case "destroy":
			// catalog.RemoveTimeBucket: unlinks of the year files and of category_name, rmdirs
			var pre []Ev
			for pos < len(evs) && (evs[pos].K == "filedel" || evs[pos].K == "cat") {
				pre = append(pre, evs[pos])
				pos++
			}
			out = append(out, fmt.Sprintf("(SEnqueue %s [])", EvsTerm(pre)))
		case "rotate":
			return "", fmt.Errorf("step %d: rotate without a preceding checkpoint is not a schedule of the loop", si)
		case "shutdown":
			out = append(out, "(SShutdown [])")
			pos = len(evs)
		}
	}
	return cq.List(out), nil
}

// SchedBG derives the schedule of a background-mode run (the REAL SyncWAL goroutine, one sequential writer)
// from the recording: the writer's catalog calls, the loop's flushes (timer-driven or requested), its
// timer-driven checkpoints and rotations, and the acknowledgement markers, in the order they happened.
// Timer flushes that found an empty queue leave no system call; they show as gaps in the TG ids.
func (h *History) SchedBG(d *Decoded) (string, error) {
	// the markers of the writer goroutine may fall inside a group of the loop goroutine's calls: take them
	// out, remember before which loop event each one came, and emit it after the group it fell into
	var evs []Ev
	type ackAt struct{ pos, id int }
	var acks []ackAt
	for _, e := range d.Evs {
		if e.K == "ack" {
			acks = append(acks, ackAt{len(evs), e.Ack})
		} else {
			evs = append(evs, e)
		}
	}
	var writes []int
	for si := range h.Steps {
		if h.Steps[si].Kind == "write" || h.Steps[si].Kind == "enqueue" {
			writes = append(writes, si)
		}
	}
	lastFlushPending := false // the last flush group took commands of an "enqueue" step
	wi := 0 // next write step whose commands have not been flushed yet
	next := Tgid0(d)
	var out []string
	var pre []Ev
	flushPre := func() {
		if len(pre) > 0 {
			out = append(out, fmt.Sprintf("(SEnqueue %s [])", EvsTerm(pre)))
			pre = nil
		}
	}
	i := 0
	for i < len(evs) && i < 3 && (evs[i].K == "walcreate" || evs[i].K == "walstatus" || evs[i].K == "walfsync") {
		i++
	}
	ai := 0
	emitAcks := func(upto int) {
		for ai < len(acks) && acks[ai].pos <= upto {
			flushPre()
			out = append(out, fmt.Sprintf("(SAck %s)", cq.Nat(acks[ai].id)))
			ai++
		}
	}
	for i < len(evs) {
		emitAcks(i)
		e := evs[i]
		switch {
		case e.K == "cat" || e.K == "filenew" || e.K == "filehdr" || e.K == "create":
			pre = append(pre, e)
			i++
		case e.K == "walapp" && e.Rec.T == "txn" && e.Rec.Dest == 0 && e.Rec.St == 0:
			// a flush group: 6 appends + fsync, then the primary writes
			if i+6 >= len(evs) || evs[i+3].K != "walapp" || evs[i+3].Rec.T != "body" {
				return "", fmt.Errorf("event %d: incomplete flush group", i)
			}
			body := evs[i+3].Rec
			j := i + 7
			var primFiles []int
			seen := map[int]bool{}
			for j < len(evs) && (evs[j].K == "pw" || evs[j].K == "vdata" || evs[j].K == "vindex") {
				if !seen[evs[j].F] {
					seen[evs[j].F] = true
					primFiles = append(primFiles, evs[j].F)
				}
				j++
			}
			if wi >= len(writes) {
				return "", fmt.Errorf("event %d: a flush without a pending request", i)
			}
			// the group holds the commands of one acknowledged request (its own RequestFlush), or of every
			// request that was only queued ("enqueue" steps) when the loop flushed: take requests until the
			// number of commands matches
			want, got := len(body.Cmds), 0
			var group []*Step
			lastFlushPending = false
			for wi < len(writes) && got < want {
				st := &h.Steps[writes[wi]]
				got += h.cmdCount(st)
				group = append(group, st)
				if st.Kind == "enqueue" {
					lastFlushPending = true
				}
				wi++
				if st.Kind == "write" {
					break // its RequestFlush is answered by this very flush
				}
			}
			if got != want {
				return "", fmt.Errorf("event %d: flush group of %d commands does not end at a request boundary (%d)", i, want, got)
			}
			// timer flushes that found the queue empty (they only advance the TG id) come first
			for ; next < body.Tid && body.Tid-next < 100000; next++ {
				out = append(out, "(SFlush [])")
			}
			next = body.Tid + 1
			// position of each command's file in the body, per request in queue order
			cmdAt := 0
			for _, st := range group {
				n := h.cmdCount(st)
				var bodyFiles []int
				for _, c := range body.Cmds[cmdAt : cmdAt+n] {
					bodyFiles = append(bodyFiles, c.F)
				}
				cmdAt += n
				type bt struct {
					term string
					key  int
				}
				var bts []bt
				for bi := range st.Batches {
					term, fids := h.batchTerm(d, &st.Batches[bi])
					key := 1 << 30
					for p, f := range bodyFiles {
						for _, g := range fids {
							if f == g && p < key {
								key = p
							}
						}
					}
					bts = append(bts, bt{term, key})
				}
				sort.SliceStable(bts, func(a, b int) bool { return bts[a].key < bts[b].key })
				var terms []string
				for _, b := range bts {
					terms = append(terms, b.term)
				}
				out = append(out, fmt.Sprintf("(SEnqueue %s %s)", EvsTerm(pre), cq.List(terms)))
				pre = nil
			}
			out = append(out, fmt.Sprintf("(SFlush %s)", fidList(primFiles)))
			i = j
		case e.K == "walapp" && e.Rec.T == "txn" && e.Rec.Dest == 1 && e.Rec.St == 0:
			// a checkpoint: PREPARING, sync, COMMITCOMPLETE, then possibly the rotation
			flushPre()
			j := i + 1
			for j < len(evs) && j < i+3 && (evs[j].K == "sync" || (evs[j].K == "walapp" && evs[j].Rec.T == "txn" && evs[j].Rec.Dest == 1)) {
				j++
			}
			rot := j+2 < len(evs) && evs[j].K == "waltrunc"
			if rot {
				j += 3
			}
			out = append(out, fmt.Sprintf("(SCheckpoint %s)", cq.Bool(rot)))
			i = j
		case e.K == "waltrunc":
			// a rotation after a checkpoint that had nothing to write
			flushPre()
			out = append(out, "(SCheckpoint true)")
			i += 3
		default:
			return "", fmt.Errorf("event %d (%s): not an event of the writer loop", i, e.K)
		}
	}
	emitAcks(len(evs))
	flushPre()
	if n := len(h.Steps); n > 0 && h.Steps[n-1].Kind == "shutdown" {
		// Shutdown(): the loop's shutdown branch = FlushToWAL (nothing queued) + CreateCheckpoint; its
		// checkpoint, if it wrote one, is the last group of the trace
		if m := len(out); m > 1 && out[m-1] == "(SCheckpoint false)" && lastFlushPending && strings.HasPrefix(out[m-2], "(SFlush ") {
			// requests were still queued: the shutdown branch's FlushToWAL wrote the last group, its
			// CreateCheckpoint the last checkpoint (this order: the model's SShutdown)
			out[m-2] = "(SShutdown " + strings.TrimSuffix(strings.TrimPrefix(out[m-2], "(SFlush "), ")") + ")"
			out = out[:m-1]
		} else if m > 0 && out[m-1] == "(SCheckpoint false)" {
			out[m-1] = "(SShutdown [])"
		} else {
			out = append(out, "(SShutdown [])")
		}
	}
	return cq.List(out), nil
}

// ---------------------------------------------------------------- crash prefixes and observations

// Prefixes to explore: every prefix when the trace is short, otherwise every boundary in the
// neighbourhood of WAL records / primary writes / index-data halves / checkpoints plus a stride.
func Prefixes(d *Decoded, max int) []int {
	n := len(d.Evs)
	if n+1 <= max {
		out := make([]int, n+1)
		for i := range out {
			out[i] = i
		}
		return out
	}
	pick := map[int]bool{0: true, n: true}
	score := func(e Ev) int {
		switch e.K {
		case "vdata", "vindex":
			return 3
		case "walapp", "pw", "sync", "waltrunc", "walstatus":
			return 2
		case "create", "walfsync", "ack", "filenew", "filehdr":
			return 1
		}
		return 0
	}
	for lvl := 3; lvl >= 1; lvl-- {
		for i, e := range d.Evs {
			if len(pick) >= max {
				break
			}
			if score(e) == lvl {
				pick[i] = true
				if len(pick) < max {
					pick[i+1] = true
				}
			}
		}
	}
	var out []int
	for k := range pick {
		out = append(out, k)
	}
	sort.Ints(out)
	return out
}

// Obs is the real recovery's outcome on the image of prefix K, in model terms.
type Obs struct {
	K     int
	Class int // 0 ok 1 startup-error 2 panic
	Err   string
	B     []BObs
	Raw   RecoverOut
}
type BObs struct {
	Code int // 0 absent 1 rows 2 query error 3 skip 4 the query killed the process
	Rows []ORow
	Err  string
}
type ORow struct {
	F       int
	Index   int64
	Payload []byte
}

func classCode(c string) int {
	switch c {
	case "ok":
		return 0
	case "startup-error":
		return 1
	}
	return 2
}

// ToObs converts a RecoverOut into per-bucket observations aligned with h.Buckets.
func (h *History) ToObs(d *Decoded, k int, ro RecoverOut) Obs {
	o := Obs{K: k, Class: classCode(ro.Class), Err: ro.Err, Raw: ro}
	byKey := map[string]*QBucket{}
	for i := range ro.Buckets {
		byKey[ro.Buckets[i].Key] = &ro.Buckets[i]
	}
	for bi := range h.Buckets {
		b := &h.Buckets[bi]
		info := h.info(b)
		exists := false // some year file of the bucket has been created (possibly without header yet)
		for _, fi := range d.Files {
			if fi.Bucket == b.Key && fi.CreatAt < k && !(fi.DelAt > 0 && fi.DelAt <= k) {
				exists = true
			}
		}
		qb, ok := byKey[b.Key]
		switch {
		case !exists:
			o.B = append(o.B, BObs{Code: 0}) // the bucket did not exist at the crash (directories may)
		case !ok:
			o.B = append(o.B, BObs{Code: 0, Err: "not listed by the catalog"})
		case qb.Fatal:
			o.B = append(o.B, BObs{Code: 4, Err: qb.Err})
		case qb.Err != "":
			o.B = append(o.B, BObs{Code: 2, Err: qb.Err})
		default:
			bo := BObs{Code: 1}
			for _, r := range qb.Rows {
				t := time.Unix(r.Epoch, 0).UTC()
				path := fmt.Sprintf("%s/%d.bin", b.Key, t.Year())
				f, ok := d.FID[path]
				if !ok {
					f = 9999
				}
				v, _ := hex.DecodeString(r.Vals)
				bo.Rows = append(bo.Rows, ORow{F: f, Index: io.TimeToIndex(t, info.tf), Payload: v})
			}
			o.B = append(o.B, bo)
		}
	}
	return o
}

func (o Obs) Term() string {
	var bs []string
	for _, b := range o.B {
		var rows []string
		for _, r := range b.Rows {
			rows = append(rows, cq.Tuple(cq.N(uint64(r.F)), cq.Z(r.Index), byteTerm(r.Payload)))
		}
		bs = append(bs, cq.Rec(cq.F("bo_code", cq.Nat(b.Code)), cq.F("bo_rows", cq.List(rows))))
	}
	return cq.Rec(cq.F("o_k", cq.Nat(o.K)), cq.F("o_class", cq.Nat(o.Class)), cq.F("o_buckets", cq.List(bs)))
}

// Explore materialises the image of every given prefix and runs the REAL recovery on it (parallel).
func Explore(h *History, d *Decoded, ops []Op, ks []int, dir string, workers int) []Obs {
	res := make([]Obs, len(ks))
	var wg sync.WaitGroup
	chunk := (len(ks) + workers - 1) / workers
	if chunk < 1 {
		chunk = 1
	}
	for w := 0; w*chunk < len(ks); w++ {
		lo, hi := w*chunk, (w+1)*chunk
		if hi > len(ks) {
			hi = len(ks)
		}
		wg.Add(1)
		go func(lo, hi int) {
			defer wg.Done()
			const batch = 12
			for s := lo; s < hi; s += batch {
				e := s + batch
				if e > hi {
					e = hi
				}
				var dirs []string
				for i := s; i < e; i++ {
					p := filepath.Join(dir, fmt.Sprintf("img%05d", ks[i]))
					os.RemoveAll(p)
					if err := Materialise(p, ops, ks[i]); err != nil {
						res[i] = Obs{K: ks[i], Class: 2, Err: "materialise: " + err.Error()}
					}
					dirs = append(dirs, p)
				}
				outs := RecoverImages(dirs, InstanceID2)
				for i := s; i < e; i++ {
					if res[i].Err == "" {
						res[i] = h.ToObs(d, ks[i], outs[i-s])
					}
					os.RemoveAll(dirs[i-s])
				}
			}
		}(lo, hi)
	}
	wg.Wait()
	return res
}

// ---------------------------------------------------------------- the case term

func (h *History) BucketsTerm(d *Decoded) string {
	var bs []string
	for bi := range h.Buckets {
		type yf struct{ y, f int }
		var l []yf
		for f, fi := range d.Files {
			if fi.Bucket == h.Buckets[bi].Key {
				l = append(l, yf{fi.Year, f})
			}
		}
		sort.Slice(l, func(a, b int) bool { return l[a].y < l[b].y })
		var fs []int
		for _, x := range l {
			fs = append(fs, x.f)
		}
		bs = append(bs, fidList(fs))
	}
	return cq.List(bs)
}

func ClenTerm(d *Decoded) string {
	var it []string
	seen := map[string]bool{}
	for _, c := range d.Clen {
		t := recsTerm(c.Content)
		if seen[t] {
			continue
		}
		seen[t] = true
		it = append(it, cq.Tuple(t, cq.Z(c.Len)))
	}
	return cq.List(it)
}

func Tgid0(d *Decoded) int64 {
	for _, e := range d.Evs {
		if e.K == "walapp" && e.Rec.T == "txn" {
			return e.Rec.Tid
		}
	}
	return 1
}

func CaseTerm(h *History, d *Decoded, sched string, obs []Obs, tgid0 int64, double, pl string) string {
	var os []string
	for _, o := range obs {
		os = append(os, o.Term())
	}
	return cq.Rec(cq.F("k_tgid0", cq.Z(tgid0)), cq.F("k_owner", cq.Z(InstanceID1)), cq.F("k_owner2", cq.Z(InstanceID2)),
		cq.F("k_own2", cq.N(uint64(d.NWal))), cq.F("k_buckets", h.BucketsTerm(d)), cq.F("k_clen", ClenTerm(d)),
		cq.F("k_sched", sched), cq.F("k_trace", EvsTerm(d.Evs)), cq.F("k_obs", cq.List(os)), cq.F("k_double", double), cq.F("k_pl", pl))
}

// cmdCount: the number of write commands WriteRecords queues for a request: one per run of consecutive rows
// with the same (year, slot index) (writer.go:104-131, prevIndex/prevYear).
func (h *History) cmdCount(st *Step) int {
	n := 0
	for bi := range st.Batches {
		bt := &st.Batches[bi]
		b := &h.Buckets[bt.Bucket]
		info := h.info(b)
		py, pi := -1, int64(-1)
		for ri, r := range bt.Rows {
			y, idx, _, _ := rowSlot(info, b, r)
			if ri == 0 || y != py || idx != pi {
				n++
			}
			py, pi = y, idx
		}
	}
	return n
}
