package crash

import (
	"encoding/hex"
	"errors"
	"fmt"
	"os"
	"path/filepath"
	"sort"
	"strings"
	"sync"
	"time"

	"github.com/alpacahq/marketstore/v4/catalog"
	"github.com/alpacahq/marketstore/v4/executor"
	"github.com/alpacahq/marketstore/v4/executor/wal"
	"github.com/alpacahq/marketstore/v4/planner"
	"github.com/alpacahq/marketstore/v4/utils"
	"github.com/alpacahq/marketstore/v4/utils/io"

	"verifharness/internal/mk"
)

// Instance is a real marketstore instance wired the way internal/di does it (internal/di itself is
// not importable from outside the module): catalog.NewDirectory, executor.NewWALFile, the WAL
// cleaner at start-up, executor.NewWriter.  Synchronous WAL mode unless StartBackground is called.
type Instance struct {
	Root   string
	Cat    *catalog.Directory
	WAL    *executor.WALFileType
	Writer *executor.Writer
	wg     *sync.WaitGroup
	bg     bool
}

// StartupError: what internal/di turns into panic("unable to startup Cache and WAL") etc.
type StartupError struct{ Err error }

func (e StartupError) Error() string { return "startup: " + e.Err.Error() }

// Open mirrors di.GetCatalogDir + di.GetInitWALFile (WALBypass=false).
func Open(root string, instanceID int64) (*Instance, error) {
	utils.InstanceConfig.Timezone = time.UTC
	cat, err := catalog.NewDirectory(root)
	if err != nil {
		var e catalog.ErrCategoryFileNotFound
		if !errors.As(err, &e) {
			return nil, StartupError{fmt.Errorf("catalog: %w", err)} // di: panic(err)
		}
	}
	tpd := executor.StartNewTriggerPluginDispatcher(nil)
	wg := &sync.WaitGroup{}
	wf, err := executor.NewWALFile(root, instanceID, nil, false, wg, tpd, executor.NewTransactionPipe())
	if err != nil {
		return nil, StartupError{fmt.Errorf("create WAL: %w", err)}
	}
	finder := wal.NewFinder(os.ReadDir)
	paths, err := finder.Find(filepath.Clean(root))
	if err != nil {
		paths = []string{}
	}
	cl := executor.NewWALCleaner(wf.FilePtr.Name(), wf.OwningInstanceID)
	if err := cl.CleanupOldWALFiles(paths); err != nil {
		return nil, StartupError{fmt.Errorf("cleanup old WAL files: %w", err)}
	}
	executor.NewInstanceSetup(cat, wf)
	w, err := executor.NewWriter(cat, wf)
	if err != nil {
		return nil, StartupError{err}
	}
	return &Instance{Root: root, Cat: cat, WAL: wf, Writer: w, wg: wg}, nil
}

// StartBackground starts the WAL writer loop as di does with BackgroundSync=true.
func (in *Instance) StartBackground(walRefresh, primaryRefresh time.Duration, rotate int) {
	go in.WAL.SyncWAL(walRefresh, primaryRefresh, rotate)
	in.WAL.IncrementWaitGroup()
	in.bg = true
}

func typedCol(typ string, raw []byte) interface{} {
	c, err := mk.Col(typ, raw)
	if err != nil {
		panic(err)
	}
	return c
}

// CSM builds the ColumnSeriesMap of one write step.
func (h *History) CSM(st *Step) (io.ColumnSeriesMap, bool) {
	csm := io.NewColumnSeriesMap()
	variable := false
	for _, b := range st.Batches {
		bk := &h.Buckets[b.Bucket]
		variable = bk.Variable
		cs := io.NewColumnSeries()
		ep := make([]int64, len(b.Rows))
		ns := make([]int32, len(b.Rows))
		for i, r := range b.Rows {
			ep[i], ns[i] = r.Epoch, r.Nanos
		}
		cs.AddColumn("Epoch", ep)
		off := 0
		for _, c := range bk.Cols {
			sz := colSize(c.Type)
			raw := make([]byte, 0, sz*len(b.Rows))
			for _, r := range b.Rows {
				raw = append(raw, r.Vals[off:off+sz]...)
			}
			cs.AddColumn(c.Name, typedCol(c.Type, raw))
			off += sz
		}
		if bk.Variable {
			cs.AddColumn("Nanoseconds", ns)
		}
		csm.AddColumnSeries(*io.NewTimeBucketKey(bk.Key), cs)
	}
	return csm, variable
}

// Enqueue does what WriteCSM does up to RequestFlush, without it: the buckets exist already (precreate), the
// rows are serialised in the bucket's column order and queued by Writer.WriteRecords.
func (in *Instance) Enqueue(h *History, st *Step) error {
	csm, variable := h.CSM(st)
	for tbk, cs := range csm {
		tbk := tbk
		times, err := cs.GetTime()
		if err != nil {
			return err
		}
		if variable {
			if err := cs.Remove("Nanoseconds"); err != nil {
				return err
			}
		}
		tbi, err := in.Cat.GetLatestTimeBucketInfoFromKey(&tbk)
		if err != nil {
			return err
		}
		dbDSV := tbi.GetDataShapesWithEpoch()
		rowData, _, err := io.SerializeColumnsToRows(cs, dbDSV, false)
		if err != nil {
			return err
		}
		if err := in.Writer.WriteRecords(times, rowData, dbDSV, tbi); err != nil {
			return err
		}
	}
	return nil
}

// RunStep executes one step of a history on the instance.
func (in *Instance) RunStep(h *History, st *Step) error {
	switch st.Kind {
	case "write":
		csm, variable := h.CSM(st)
		return in.Writer.WriteCSM(csm, variable)
	case "checkpoint":
		return in.WAL.CreateCheckpoint()
	case "destroy":
		return in.Cat.RemoveTimeBucket(io.NewTimeBucketKey(h.Buckets[st.Batches[0].Bucket].Key))
	case "rotate":
		// the rotate branch of SyncWAL (executor/wal.go:753-762), which is only reachable right after
		// CreateCheckpoint in the same loop iteration
		if err := in.WAL.FilePtr.Truncate(0); err != nil {
			return err
		}
		return in.WAL.WriteStatus(wal.OPEN, wal.NOTREPLAYED)
	case "shutdown":
		if in.bg {
			in.WAL.Shutdown()
			return nil
		}
		// synchronous mode has no loop: the shutdown branch's two calls (wal.go:767-775)
		if err := in.WAL.FlushToWAL(); err != nil {
			return err
		}
		return in.WAL.CreateCheckpoint()
	}
	return fmt.Errorf("unknown step kind %q", st.Kind)
}

// QRow is one row returned by the unrestricted query of a bucket.
type QRow struct {
	Epoch int64  `json:"epoch"`
	Nanos int32  `json:"nanos,omitempty"`
	Vals  string `json:"vals"` // hex of the non-time columns, in column order
}

// QBucket: query outcome of one bucket.
type QBucket struct {
	Key   string `json:"key"`
	Err   string `json:"err,omitempty"`
	Fatal bool   `json:"fatal,omitempty"` // the query killed the process (log.Fatal)
	Rows  []QRow `json:"rows"`
}

// RecoverOut is what the recovery child reports.
type RecoverOut struct {
	Class   string    `json:"class"` // ok | startup-error | panic
	Err     string    `json:"err,omitempty"`
	Buckets []QBucket `json:"buckets"`
	Files   []string  `json:"files"` // names in the root directory after start-up (WAL files)
}

// QueryAll runs the unrestricted query on every bucket of the catalog.
func QueryAll(cat *catalog.Directory) []QBucket {
	keys := catalog.ListTimeBucketKeyNames(cat)
	sort.Strings(keys)
	var out []QBucket
	for _, k := range keys {
		out = append(out, queryOne(cat, k))
	}
	return out
}

func queryOne(cat *catalog.Directory, key string) (qb QBucket) {
	qb.Key = key
	defer func() {
		if r := recover(); r != nil {
			qb.Err = fmt.Sprintf("panic: %v", r)
		}
	}()
	tbk := io.NewTimeBucketKey(key)
	q := planner.NewQuery(cat)
	q.AddTargetKey(tbk)
	pr, err := q.Parse()
	if err != nil {
		qb.Err = "parse: " + err.Error()
		return
	}
	rd, err := executor.NewReader(pr)
	if err != nil {
		qb.Err = "reader: " + err.Error()
		return
	}
	csm, err := rd.Read()
	if err != nil {
		qb.Err = "read: " + err.Error()
		return
	}
	for _, cs := range csm {
		ep, _ := cs.GetColumn("Epoch").([]int64)
		ns, _ := cs.GetColumn("Nanoseconds").([]int32)
		var cols [][]byte
		var sizes []int
		for _, name := range cs.GetColumnNames() {
			if name == "Epoch" || name == "Nanoseconds" {
				continue
			}
			raw := mk.Raw(cs.GetColumn(name))
			sz := 0
			if len(ep) > 0 {
				sz = len(raw) / len(ep)
			}
			cols = append(cols, raw)
			sizes = append(sizes, sz)
		}
		for i := range ep {
			var v []byte
			for j := range cols {
				v = append(v, cols[j][i*sizes[j]:(i+1)*sizes[j]]...)
			}
			r := QRow{Epoch: ep[i], Vals: hex.EncodeToString(v)}
			if ns != nil {
				r.Nanos = ns[i]
			}
			qb.Rows = append(qb.Rows, r)
		}
	}
	return
}

// Startup performs the real start-up on a crash image (what internal/di does).
func Startup(root string, instanceID int64) (out RecoverOut, cat *catalog.Directory) {
	defer func() {
		if r := recover(); r != nil {
			out.Class = "panic"
			out.Err = fmt.Sprintf("%v", r)
			cat = nil
		}
	}()
	in, err := Open(root, instanceID)
	if err != nil {
		out.Class = "startup-error"
		out.Err = err.Error()
		return out, nil
	}
	out.Class = "ok"
	ents, _ := os.ReadDir(root)
	own := filepath.Base(in.WAL.FilePtr.Name())
	for _, e := range ents {
		if !e.IsDir() && strings.Contains(e.Name(), "walfile") {
			if e.Name() == own {
				out.Files = append(out.Files, "OWN")
			} else {
				out.Files = append(out.Files, e.Name())
			}
		}
	}
	in.WAL.FilePtr.Close()
	return out, in.Cat
}
