// Package crash: machinery of the durability group (C01 C02 C03 C04 C05 C34 C35).
//
//	hist.go    write histories (JSON) and their seeded generator
//	inst.go    a REAL marketstore instance wired from exported constructors; workload and recovery children
//	strace.go  run a child under strace, parse the file-mutating syscalls under the root
//	image.go   materialise the crash image of a syscall prefix in a fresh directory
//	decode.go  syscall ops -> structured model events (Model/Wal.v) and Gallina printing
//	oracle.go  the properties evaluated on the implementation's own recovery output
package crash

import (
	"fmt"
	"sort"
	"time"

	"verifharness/internal/rng"
)

// Col is one non-Epoch column of a bucket (fixed-width element types only).
type Col struct {
	Name string `json:"name"`
	Type string `json:"type"` // int32 | float32 | int64 | float64
}

// Bucket: Key = "SYM/TF/ATTR".  Variable buckets take a Nanoseconds column on write.
type Bucket struct {
	Key      string `json:"key"`
	Variable bool   `json:"variable"`
	Cols     []Col  `json:"cols"`
}

// Row: one record.  Vals = little-endian column values in Cols order (no Epoch, no Nanoseconds).
type Row struct {
	Epoch int64  `json:"epoch"`
	Nanos int32  `json:"nanos"`
	Vals  []byte `json:"vals"`
}

// Batch: the rows of one bucket inside one request (one entry of the ColumnSeriesMap).
type Batch struct {
	Bucket int   `json:"bucket"`
	Rows   []Row `json:"rows"`
}

// Step of a history.  Kind:
//
//	"write"      one WriteCSM call with the given batches (all buckets variable, or all fixed)
//	"checkpoint" CreateCheckpoint()                                 (sync mode: called directly)
//	"rotate"     the rotate branch of SyncWAL: Truncate(0) + WriteStatus(OPEN, NOTREPLAYED)
//	"shutdown"   graceful shutdown (background mode: Shutdown(); sync mode: FlushToWAL+CreateCheckpoint)
//	"destroy"    catalog.RemoveTimeBucket of the bucket Batches[0].Bucket (no rows); synchronous mode
//	"enqueue"    background mode only: WriteCSM up to, and without, RequestFlush (Writer.WriteRecords per bucket):
//	             the commands sit in the write channel until the loop's next flush (timer, another writer's
//	             request, or the shutdown branch).  Not acknowledged.
type Step struct {
	Kind    string  `json:"kind"`
	Batches []Batch `json:"batches,omitempty"`
}

type History struct {
	Buckets []Bucket `json:"buckets"`
	Steps   []Step   `json:"steps"`
	// Mode "sync": BackgroundSync=false, every WriteCSM flushes itself (what internal/di does without
	// background sync).  Mode "bg": SyncWAL(walMs, primaryMs, rotate) runs, Writers concurrent writers.
	Mode      string `json:"mode"`
	WalMs     int    `json:"wal_ms,omitempty"`
	PrimaryMs int    `json:"primary_ms,omitempty"`
	Rotate    int    `json:"rotate,omitempty"`
	Writers   int    `json:"writers,omitempty"`
	PauseMs   int    `json:"pause_ms,omitempty"` // bg mode: pause after each request (lets the timers fire)
	Tags      []string `json:"tags,omitempty"`
}

func colSize(t string) int {
	switch t {
	case "int32", "float32":
		return 4
	}
	return 8
}

func (b *Bucket) ValLen() int {
	n := 0
	for _, c := range b.Cols {
		n += colSize(c.Type)
	}
	return n
}

var symbols = []string{"AAPL", "MSFT", "X"}

func ts(y int, m time.Month, d, hh, mm, ss int) int64 {
	return time.Date(y, m, d, hh, mm, ss, 0, time.UTC).Unix()
}

// GenOpts steers the generator; zero value = the default mix of the given tier.
type GenOpts struct {
	Tier     string
	Mode     string // "" = sync
	MaxSteps int
	// Clean: stay inside every guard (no daily Jan-1, no cross-year unsorted request)
	Clean bool
	// NoVariable / OnlyVariable restrict the bucket kinds
	NoVariable, OnlyVariable bool
	Shutdown bool // end with a graceful shutdown
	Rewrite  bool // the run ends with two more acknowledged requests that overwrite one fixed slot with new values (no checkpoint between)
	Destroy  bool // a bucket is destroyed after an acknowledged, not yet checkpointed write to it (C03)
	Pending  bool // background mode: the last one or two requests are still queued when Shutdown() is called
	Ckpt     bool // sprinkle checkpoints (and rotations)
}

// Gen draws a history.  Structured and boundary-heavy: few slots so that repeated writes to the same
// fixed slot / same variable interval (continuation writes) are frequent, two years, a daily bucket
// that can hit Jan-1, requests that span years.
func Gen(r *rng.Rand, o GenOpts) History {
	h := History{Mode: "sync"}
	if o.Mode != "" {
		h.Mode = o.Mode
	}
	nb := 1 + r.Intn(3)
	tfs := []string{"1Min", "1H", "1D", "4H", "1D"}
	used := map[string]bool{}
	for len(h.Buckets) < nb {
		variable := r.Chance(45)
		if o.NoVariable {
			variable = false
		}
		if o.OnlyVariable {
			variable = true
		}
		var b Bucket
		sym := symbols[r.Intn(len(symbols))]
		if variable {
			tf := []string{"1Min", "1H", "4H", "1H"}[r.Intn(4)]
			b = Bucket{Key: sym + "/" + tf + "/TICK", Variable: true, Cols: []Col{{"Bid", "float32"}, {"Ser", "int32"}}}
			if r.Chance(30) {
				b.Cols = []Col{{"Ser", "int64"}}
			}
		} else {
			tf := tfs[r.Intn(len(tfs))]
			b = Bucket{Key: sym + "/" + tf + "/OHLCV", Cols: []Col{{"Open", "float32"}, {"Volume", "int32"}}}
			if r.Chance(30) {
				b.Cols = []Col{{"Px", "float64"}, {"N", "int32"}}
			}
		}
		if used[b.Key] {
			continue
		}
		used[b.Key] = true
		h.Buckets = append(h.Buckets, b)
	}
	maxSteps := o.MaxSteps
	if maxSteps == 0 {
		maxSteps = 6
		if o.Tier == "thorough" {
			maxSteps = 12
		}
	}
	nsteps := 2 + r.Intn(maxSteps-1)
	serial := int32(1)
	// a small pool of instants per bucket, so that slots repeat
	pool := func(b *Bucket) []int64 {
		p := []int64{
			ts(2019, 3, 4, 10, 0, 0), ts(2019, 3, 4, 10, 1, 0), ts(2019, 3, 4, 11, 0, 0), ts(2019, 3, 5, 10, 0, 0),
			ts(2019, 12, 31, 23, 59, 0), ts(2020, 1, 2, 0, 0, 0), ts(2020, 3, 4, 10, 0, 0), ts(2020, 2, 29, 12, 0, 0),
			ts(2019, 1, 2, 0, 0, 0),
		}
		if !o.Clean {
			p = append(p, ts(2019, 1, 1, 0, 0, 0), ts(2020, 1, 1, 0, 0, 0), ts(2019, 1, 1, 0, 1, 0))
		}
		return p
	}
	sinceCkpt := 0
	for s := 0; s < nsteps; s++ {
		if o.Ckpt && sinceCkpt > 0 && r.Chance(30) {
			h.Steps = append(h.Steps, Step{Kind: "checkpoint"})
			if r.Chance(35) {
				h.Steps = append(h.Steps, Step{Kind: "rotate"})
			}
			sinceCkpt = 0
			continue
		}
		// one request: 1..2 buckets of the same kind
		first := r.Intn(len(h.Buckets))
		kind := h.Buckets[first].Variable
		var idxs []int
		for i := range h.Buckets {
			if h.Buckets[i].Variable == kind && (i == first || r.Chance(40)) {
				idxs = append(idxs, i)
			}
		}
		st := Step{Kind: "write"}
		for _, bi := range idxs {
			b := &h.Buckets[bi]
			p := pool(b)
			nr := 1 + r.Intn(3)
			if r.Chance(15) {
				nr += 2
			}
			var rows []Row
			for k := 0; k < nr; k++ {
				e := p[r.Intn(len(p))]
				if r.Chance(55) { // stay on few slots: repeated writes / continuation writes
					e = p[r.Intn(3)]
				}
				row := Row{Epoch: e}
				if b.Variable {
					row.Epoch = e + int64(r.Intn(3))
					row.Nanos = int32(r.Intn(4)) * 250000000
				}
				v := make([]byte, b.ValLen())
				off := 0
				for _, c := range b.Cols {
					sz := colSize(c.Type)
					// every value carries the serial number in its low bytes: rows are distinguishable
					v[off] = byte(serial)
					v[off+1] = byte(serial >> 8)
					if c.Type == "float32" || c.Type == "float64" {
						v[off+sz-1] = 0x3f // a positive finite float
					}
					off += sz
				}
				serial++
				row.Vals = v
				rows = append(rows, row)
			}
			// sorted by time unless we explicitly want the cross-year-unsorted class
			if o.Clean || !r.Chance(12) {
				sort.SliceStable(rows, func(i, j int) bool {
					if rows[i].Epoch != rows[j].Epoch {
						return rows[i].Epoch < rows[j].Epoch
					}
					return rows[i].Nanos < rows[j].Nanos
				})
			}
			st.Batches = append(st.Batches, Batch{Bucket: bi, Rows: rows})
		}
		h.Steps = append(h.Steps, st)
		sinceCkpt++
	}
	if o.Rewrite {
		// two acknowledged, un-checkpointed transaction groups write the SAME fixed slot with different values:
		// whatever a crash or a power failure leaves of their primary writes, recovery must yield the later one
		for i := len(h.Steps) - 1; i >= 0; i-- {
			st := &h.Steps[i]
			if st.Kind != "write" || h.Buckets[st.Batches[0].Bucket].Variable {
				continue
			}
			bt := st.Batches[0]
			b := &h.Buckets[bt.Bucket]
			for n := 0; n < 2; n++ {
				v := make([]byte, b.ValLen())
				off := 0
				for _, c := range b.Cols {
					sz := colSize(c.Type)
					v[off] = byte(serial)
					v[off+1] = byte(serial >> 8)
					if c.Type == "float32" || c.Type == "float64" {
						v[off+sz-1] = 0x3f
					}
					off += sz
				}
				serial++
				h.Steps = append(h.Steps, Step{Kind: "write", Batches: []Batch{{Bucket: bt.Bucket, Rows: []Row{{Epoch: bt.Rows[0].Epoch, Vals: v}}}}})
			}
			break
		}
	}
	if o.Destroy {
		// after the last write to some bucket that no checkpoint follows: destroy it, then (usually) go on
		// writing to the other buckets; every crash prefix from there on finds a WAL whose transaction
		// group names a year file that is gone
		last := -1
		for i := len(h.Steps) - 1; i >= 0 && h.Steps[i].Kind == "write"; i-- {
			last = i
		}
		if last >= 0 {
			at := last + r.Intn(len(h.Steps)-last)
			bi := h.Steps[at].Batches[r.Intn(len(h.Steps[at].Batches))].Bucket
			var steps []Step
			steps = append(steps, h.Steps[:at+1]...)
			steps = append(steps, Step{Kind: "destroy", Batches: []Batch{{Bucket: bi}}})
			for _, st := range h.Steps[at+1:] {
				// later requests leave the destroyed bucket alone
				var bs []Batch
				for _, b := range st.Batches {
					if b.Bucket != bi {
						bs = append(bs, b)
					}
				}
				if len(bs) > 0 {
					st.Batches = bs
					steps = append(steps, st)
				}
			}
			h.Steps = steps
		}
	}
	if o.Shutdown {
		h.Steps = append(h.Steps, Step{Kind: "shutdown"})
	}
	if o.Pending && o.Shutdown && h.Mode == "bg" {
		// shutdown requested while write commands are queued and not yet flushed: the last requests only enqueue
		n := 1 + r.Intn(2)
		for i := len(h.Steps) - 2; i >= 0 && n > 0 && h.Steps[i].Kind == "write"; i-- {
			h.Steps[i].Kind = "enqueue"
			n--
		}
		h.WalMs = 3000 // the WAL timer stays out of the way; the loop notices the shutdown within WalMs/100
	}
	if h.Mode == "bg" && (!o.Shutdown || o.MaxSteps == 9) { // C05's background histories
		// timers fast enough to interleave with the requests
		h.WalMs, h.PrimaryMs, h.Rotate, h.PauseMs = 20, 30+r.Intn(40), 2, 10+r.Intn(30)
	}
	return h
}

func (h *History) String() string {
	return fmt.Sprintf("history{%d buckets, %d steps, mode=%s}", len(h.Buckets), len(h.Steps), h.Mode)
}
