package crash

import "os"

// workloadBG: background-sync mode (SyncWAL loop + concurrent writers); filled in for C05/C35.
func workloadBG(in *Instance, h *History, ack *os.File) int { return 2 }
