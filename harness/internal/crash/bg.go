package crash

import (
	"encoding/json"
	"fmt"
	"os"
	"sort"
	"time"

	"github.com/alpacahq/marketstore/v4/utils/io"
)

// workloadBG: the instance runs the REAL WAL writer goroutine (SyncWAL) as internal/di does with
// BackgroundSync=true.  One writer issues the requests one after the other: WriteCSM queues its commands and
// RequestFlush hands the flush to the loop goroutine.  The WAL timer fires every WalMs (a timer flush with an
// empty queue only advances the TG id; one that finds queued commands flushes them before the writer's own
// request arrives, which then finds nothing); the primary timer is far away, so checkpoints come only from the
// final Shutdown() (the loop's shutdown branch: FlushToWAL; CreateCheckpoint).
func workloadBG(in *Instance, h *History, ack *os.File) int {
	walMs, primMs, rot := h.WalMs, h.PrimaryMs, h.Rotate
	if walMs <= 0 {
		walMs = 200
	}
	if primMs <= 0 {
		primMs = 3600 * 1000
	}
	if rot <= 0 {
		rot = 1000
	}
	if err := precreate(in, h); err != nil {
		fmt.Fprintln(os.Stderr, "precreate:", err)
		return 4
	}
	in.StartBackground(time.Duration(walMs)*time.Millisecond, time.Duration(primMs)*time.Millisecond, rot)
	time.Sleep(5 * time.Millisecond) // let the loop set haveWALWriter
	ackf := ack.Name()
	for i := range h.Steps {
		st := &h.Steps[i]
		switch st.Kind {
		case "write":
			if err := in.RunStep(h, st); err != nil {
				ack.WriteString(fmt.Sprintf("NAK %d\n", i))
				continue
			}
			ack.WriteString(fmt.Sprintf("ACK %d\n", i))
			if h.PauseMs > 0 {
				time.Sleep(time.Duration(h.PauseMs) * time.Millisecond)
			}
		case "enqueue":
			if err := in.Enqueue(h, st); err != nil {
				fmt.Fprintln(os.Stderr, "enqueue:", err)
				return 4
			}
		case "shutdown":
			pre := QueryAll(in.Cat)
			b, _ := json.Marshal(pre)
			os.WriteFile(ackf+".pre", b, 0o644)
			in.WAL.Shutdown()
			// what a query returns once the shutdown has completed (the pending requests are applied by then)
			post := QueryAll(in.Cat)
			b, _ = json.Marshal(post)
			os.WriteFile(ackf+".post", b, 0o644)
		default:
			// checkpoints and rotations are timer-driven in this mode
		}
	}
	return 0
}

// precreate creates every bucket and year file of the history through the catalog, before the loop starts:
// the writer's catalog calls would otherwise interleave with the loop goroutine's calls at system-call
// granularity (two goroutines), which the model's atomic steps do not describe.  The calls are the same ones
// WriteCSM issues on demand (AddTimeBucket, GetSubDirectoryAndAddFile).
func precreate(in *Instance, h *History) error {
	for bi := range h.Buckets {
		b := &h.Buckets[bi]
		years := map[int]bool{}
		for si := range h.Steps {
			for _, bt := range h.Steps[si].Batches {
				if bt.Bucket != bi {
					continue
				}
				for _, r := range bt.Rows {
					years[time.Unix(r.Epoch, int64(r.Nanos)).UTC().Year()] = true
				}
			}
		}
		var ys []int
		for y := range years {
			ys = append(ys, y)
		}
		sort.Ints(ys)
		if len(ys) == 0 {
			continue
		}
		// the same shapes WriteCSM derives from the ColumnSeries
		st := Step{Kind: "write", Batches: []Batch{{Bucket: bi, Rows: []Row{{Epoch: 0, Vals: make([]byte, b.ValLen())}}}}}
		csm, variable := h.CSM(&st)
		var first *io.TimeBucketInfo
		for tbk, cs := range csm {
			tbk := tbk
			if variable {
				cs.Remove("Nanoseconds")
			}
			tf, err := tbk.GetTimeFrame()
			if err != nil {
				return err
			}
			rt := io.FIXED
			if variable {
				rt = io.VARIABLE
			}
			first = io.NewTimeBucketInfo(*tf, tbk.GetPathToYearFiles(in.Cat.GetPath()), "Created By Writer", int16(ys[0]), cs.GetDataShapes(), rt)
			if err := in.Cat.AddTimeBucket(&tbk, first); err != nil {
				return err
			}
		}
		for _, y := range ys[1:] {
			if _, err := in.Cat.GetSubDirectoryAndAddFile(first.Path, int16(y)); err != nil {
				return err
			}
		}
	}
	return nil
}
