// Package c26x is the in-process runner of one C26 case: the REAL replication.GRPCReplicationServer and
// replication.Sender with fake stream objects, a zap core that turns the code's own log statements into
// observation / hold points, and the event log the parent turns into a Coq case.  It lives in its own
// small binary (cmd/c26child) because every case needs a fresh process (the faults under study kill it).
package c26x

import (
	"bufio"
	"context"
	"encoding/binary"
	"encoding/hex"
	"encoding/json"
	"errors"
	"fmt"
	"net"
	"os"
	"runtime"
	"strconv"
	"strings"
	"sync"
	"sync/atomic"
	"time"

	"go.uber.org/zap"
	"go.uber.org/zap/zapcore"
	"google.golang.org/grpc/metadata"
	"google.golang.org/grpc/peer"

	pb "github.com/alpacahq/marketstore/v4/proto"
	"github.com/alpacahq/marketstore/v4/replication"
	mslog "github.com/alpacahq/marketstore/v4/utils/log"
)

type Op struct {
	Op string `json:"op"` // connect|commit|stall|unstall|fail|hold|release|flood
	R  int    `json:"r,omitempty"`
	N  int    `json:"n,omitempty"`
}
type In struct {
	Mode  string `json:"mode"`  // forced | stress
	Addrs []int  `json:"addrs"` // client address (key) of stream r
	Ops   []Op   `json:"ops"`
	Ms    int    `json:"ms,omitempty"`
}

// ---------------------------------------------------------------------------------------------- child

type c26Addr string

func (a c26Addr) Network() string { return "tcp" }
func (a c26Addr) String() string  { return string(a) }

var _ net.Addr = c26Addr("")

func c26AddrOf(k int) string { return fmt.Sprintf("10.0.0.%d:7000", k) }

type c26Stream struct {
	id      int
	addr    string
	ctl     *c26Ctl
	mu      sync.Mutex
	recv    []int
	inSend  int32
	holding int32 // TG id being held in Send, -1 none
	stalled int32
	gate    chan error
	done    int32
}

func (f *c26Stream) Send(resp *pb.GetWALStreamResponse) error {
	id := int(binary.BigEndian.Uint64(resp.TransactionGroup))
	if atomic.LoadInt32(&f.stalled) == 1 {
		atomic.StoreInt32(&f.holding, int32(id))
		atomic.StoreInt32(&f.inSend, 1)
		err := <-f.gate
		atomic.StoreInt32(&f.inSend, 0)
		atomic.StoreInt32(&f.holding, -1)
		if err != nil {
			return err
		}
	}
	f.mu.Lock()
	f.recv = append(f.recv, id)
	f.mu.Unlock()
	return nil
}
func (f *c26Stream) Context() context.Context {
	f.ctl.regGid(f.id)
	return peer.NewContext(context.Background(), &peer.Peer{Addr: c26Addr(f.addr)})
}
func (f *c26Stream) SetHeader(metadata.MD) error  { return nil }
func (f *c26Stream) SendHeader(metadata.MD) error { return nil }
func (f *c26Stream) SetTrailer(metadata.MD)       {}
func (f *c26Stream) SendMsg(interface{}) error    { return nil }
func (f *c26Stream) RecvMsg(interface{}) error    { return nil }
func (f *c26Stream) got() []int {
	f.mu.Lock()
	defer f.mu.Unlock()
	return append([]int{}, f.recv...)
}

type c26Ctl struct {
	mu      sync.Mutex
	gid     map[uint64]int
	loops   []int32 // "waiting for write requests" count per stream
	closedL []int32 // "closed replication connection" logged
	bpAddr  string  // breakpoint: hold the sender when it is about to send to this address
	parked  int32
	gate    chan struct{}
	order   []string // addresses logged by "sending a replication message to" since the last reset
}

func curGid() uint64 {
	var b [64]byte
	n := runtime.Stack(b[:], false)
	f := strings.Fields(string(b[:n]))
	if len(f) > 1 {
		g, _ := strconv.ParseUint(f[1], 10, 64)
		return g
	}
	return 0
}
func (c *c26Ctl) regGid(r int) {
	c.mu.Lock()
	c.gid[curGid()] = r
	c.mu.Unlock()
}
func (c *c26Ctl) streamOfGid() int {
	c.mu.Lock()
	defer c.mu.Unlock()
	if r, ok := c.gid[curGid()]; ok {
		return r
	}
	return -1
}

// hook is called by the zap core in the goroutine that logs.
func (c *c26Ctl) hook(msg string) {
	switch {
	case strings.HasPrefix(msg, "sending a replication message to "):
		a := strings.TrimPrefix(msg, "sending a replication message to ")
		c.mu.Lock()
		c.order = append(c.order, a)
		hold := c.bpAddr != "" && c.bpAddr == a
		if hold {
			c.bpAddr = ""
		}
		c.mu.Unlock()
		if hold {
			atomic.StoreInt32(&c.parked, 1)
			<-c.gate
		}
	case strings.HasPrefix(msg, "[master] waiting for write requests"):
		if r := c.streamOfGid(); r >= 0 {
			atomic.AddInt32(&c.loops[r], 1)
		}
	case strings.HasPrefix(msg, "[master] closed replication connection"):
		if r := c.streamOfGid(); r >= 0 {
			atomic.StoreInt32(&c.closedL[r], 1)
		}
	}
}

type c26Core struct {
	zapcore.LevelEnabler
	f func(string)
}

func (c c26Core) With([]zapcore.Field) zapcore.Core { return c }
func (c c26Core) Check(e zapcore.Entry, ce *zapcore.CheckedEntry) *zapcore.CheckedEntry {
	return ce.AddCore(e, c)
}
func (c c26Core) Write(e zapcore.Entry, _ []zapcore.Field) error { c.f(e.Message); return nil }
func (c c26Core) Sync() error                                    { return nil }

type c26Child struct {
	in       In
	srv      *replication.GRPCReplicationServer
	snd      *replication.Sender
	ctl      *c26Ctl
	st       []*c26Stream
	state    []int  // 0 new, 1 connected, 2 gone
	connAt   []int  // number of commits before the stream connected
	connFlex []bool // connected while a TG was being fanned out: that TG may or may not reach it
	sent     [][]int
	seen     []int // how many of st[r].recv have been turned into labels
	heldLbl  []bool
	nCommit  int
	log      *bufio.Writer
	logf     *os.File
	holds    bool
	aborted  bool
	class    string
	detail   string
	tags     map[string]bool
	nDeliv   int
	// sender parked: commit in progress
	parkedT     int
	parkedAddr  string
	pendingSend bool
	pendConnect []int // connects issued while the sender holds the read lock: they complete after SEnd
	pendExit    []int // streams whose Send failed while the sender holds the read lock: delete/close after SEnd
	m           c26Map
	snap        map[string]bool
	visited     map[string]bool
	base        int
}

func w16(n int) []byte { return []byte{byte(n >> 8), byte(n)} }

func (c *c26Child) ev(s string, b ...byte) {
	fmt.Fprintf(c.log, "E %s %s\n", hex.EncodeToString(b), s)
	c.log.Flush()
}
func (c *c26Child) lab0(name string, code byte) { c.ev("L "+name, code) }
func (c *c26Child) lab1(name string, code byte, a int) {
	c.ev(fmt.Sprintf("L (%s %d)", name, a), append([]byte{code}, w16(a)...)...)
}
func (c *c26Child) labSend(r int, ok bool) {
	b := byte(0)
	if ok {
		b = 1
	}
	c.ev(fmt.Sprintf("L (GSend %d %v)", r, ok), append(append([]byte{8}, w16(r)...), b)...)
}

func waitFor(cond func() bool, d time.Duration) bool {
	dl := time.Now().Add(d)
	nap := 10 * time.Microsecond
	for i := 0; !cond(); i++ {
		if i < 200 {
			runtime.Gosched()
			continue
		}
		if time.Now().After(dl) {
			return false
		}
		time.Sleep(nap)
		if nap < time.Millisecond {
			nap *= 2
		}
	}
	return true
}

const c26Wait = 3 * time.Second

// mapped: is stream r's channel the current map entry of its address? (harness bookkeeping of the map)
type c26Map map[string]int

func (c *c26Child) fail(msg string) {
	if c.holds {
		c.holds, c.detail = false, msg
	}
	if strings.Contains(msg, "did not") {
		c.aborted = true // a wait timed out: the run is off the expected path, do not wait again
	}
}

// drainStreams turns what the stream goroutines have done since the last call into labels.
func (c *c26Child) drainStreams() {
	for r, f := range c.st {
		if c.state[r] != 1 {
			continue
		}
		// wait until the stream goroutine has consumed everything it can
		expect := func() bool {
			got := len(f.got())
			holding := atomic.LoadInt32(&f.inSend) == 1
			if atomic.LoadInt32(&f.stalled) == 1 {
				return holding || got == len(c.sent[r])
			}
			return got == len(c.sent[r])
		}
		if !waitFor(expect, c26Wait) {
			c.fail(fmt.Sprintf("stream %d did not reach a quiescent state", r))
		}
		got := f.got()
		for c.seen[r] < len(got) {
			if !c.heldLbl[r] {
				c.lab1("GRecv", 7, r)
			}
			c.heldLbl[r] = false
			c.labSend(r, true)
			c.seen[r]++
			c.nDeliv++
		}
		if atomic.LoadInt32(&f.inSend) == 1 && !c.heldLbl[r] {
			c.lab1("GRecv", 7, r)
			c.heldLbl[r] = true
		}
	}
}

func (c *c26Child) observe(m c26Map) {
	for r, f := range c.st {
		got := f.got()
		first, contiguous := 0, true
		if len(got) > 0 {
			first = got[0]
		}
		for i, x := range got {
			if x != first+i {
				contiguous = false
			}
		}
		if !contiguous {
			c.fail(fmt.Sprintf("stream %d received out of order / with gaps: %v", r, got))
			first = 65535
		}
		c.ev(fmt.Sprintf("ODeliv %d %d %d", r, first, len(got)), append(append(append([]byte{16}, w16(r)...), w16(first)...), w16(len(got))...)...)
		done := atomic.LoadInt32(&f.done) == 1
		b := byte(0)
		if done {
			b = 1
		}
		c.ev(fmt.Sprintf("ORetd %d %v", r, done), append(append([]byte{19}, w16(r)...), b)...)
		// ---- the property, on the implementation: a connected, unstalled replica has everything committed since it connected
		if c.state[r] == 1 && atomic.LoadInt32(&f.stalled) == 0 && !c.pendingSend {
			want := c.nCommit - c.connAt[r]
			// everything committed since it connected, in order (earlier TGs still queued in the sender may arrive too)
			bad := len(got) < want || (len(got) > 0 && (got[0] > c.connAt[r] || got[len(got)-1] != c.nCommit-1))
			_ = c.connFlex
			if bad {
				if c.holds {
					c.fail(fmt.Sprintf("stream %d (addr %d) is connected since commit %d but has received %v of %d commits", r, c.in.Addrs[r], c.connAt[r], got, c.nCommit))
					dup := false
					for r2 := range c.st {
						if r2 != r && c.in.Addrs[r2] == c.in.Addrs[r] && c.state[r2] != 0 {
							dup = true
						}
					}
					if dup {
						c.class = "same-client-address"
					}
				}
			}
		}
	}
	c.ev(fmt.Sprintf("OMapLen %d", len(m)), append([]byte{17}, w16(len(m))...)...)
	c.ev("OFault 0", 20, 0)
}

func RunChild(in In, logPath string) {
	lf, _ := os.Create(logPath)
	c := &c26Child{in: in, logf: lf, log: bufio.NewWriter(lf), holds: true, tags: map[string]bool{}}
	c.ctl = &c26Ctl{gid: map[uint64]int{}, loops: make([]int32, len(in.Addrs)), closedL: make([]int32, len(in.Addrs)), gate: make(chan struct{})}
	zap.ReplaceGlobals(zap.New(c26Core{zapcore.DebugLevel, c.ctl.hook}))
	mslog.SetLevel(mslog.DEBUG)
	c.srv = replication.NewGRPCReplicationServer()
	c.snd = replication.NewSender(c.srv)
	ctx, cancel := context.WithCancel(context.Background())
	defer cancel()
	c.snd.Run(ctx)
	for r, k := range in.Addrs {
		f := &c26Stream{id: r, addr: c26AddrOf(k), ctl: c.ctl, gate: make(chan error), holding: -1}
		c.st = append(c.st, f)
	}
	c.state = make([]int, len(in.Addrs))
	c.connAt = make([]int, len(in.Addrs))
	c.connFlex = make([]bool, len(in.Addrs))
	c.sent = make([][]int, len(in.Addrs))
	c.seen = make([]int, len(in.Addrs))
	c.heldLbl = make([]bool, len(in.Addrs))
	if in.Mode == "stress" || in.Mode == "stress_connect" {
		c.stress()
		return
	}
	m := c26Map{}
	c.m = m
	for _, op := range in.Ops {
		if c.aborted {
			break
		}
		r := op.R
		if r < 0 || r >= len(c.st) {
			continue
		}
		f := c.st[r]
		switch op.Op {
		case "connect":
			if c.state[r] != 0 {
				continue
			}
			go func() {
				_ = c.srv.GetWALStream(nil, f)
				atomic.StoreInt32(&f.done, 1)
			}()
			if c.pendingSend {
				// the sender holds the read lock for its whole iteration: the insert waits for it
				c.tags["connect-during-fanout"] = true
				c.state[r] = 3
				c.pendConnect = append(c.pendConnect, r)
				continue
			}
			c.finishConnect(r)
		case "stall":
			if c.state[r] == 1 {
				atomic.StoreInt32(&f.stalled, 1)
			}
			continue
		case "unstall":
			if atomic.LoadInt32(&f.stalled) == 0 {
				continue
			}
			atomic.StoreInt32(&f.stalled, 0)
			if atomic.LoadInt32(&f.inSend) == 1 {
				f.gate <- nil
			}
			c.drainStreams()
		case "fail":
			// only at a point where the stream goroutine sits inside Send
			if c.state[r] != 1 || atomic.LoadInt32(&f.inSend) != 1 {
				continue
			}
			if !c.heldLbl[r] {
				c.lab1("GRecv", 7, r)
			}
			c.heldLbl[r] = false
			atomic.StoreInt32(&f.stalled, 0)
			f.gate <- errors.New("replica went away")
			c.labSend(r, false)
			c.lab1("GSpawn", 14, r) // the drainer starts before the write lock is requested
			c.state[r] = 2
			if c.pendingSend {
				// delete + close need the write lock: they happen after the sender's iteration
				c.tags["disconnect-during-fanout"] = true
				c.pendExit = append(c.pendExit, r)
			} else {
				c.finishExit(r)
			}
		case "hold":
			if c.pendingSend || c.state[r] != 1 {
				continue
			}
			c.ctl.mu.Lock()
			c.ctl.bpAddr = f.addr
			c.ctl.mu.Unlock()
			continue
		case "release":
			if !c.pendingSend {
				continue
			}
			if c.release() {
				goto finish
			}
		case "commit":
			if c.pendingSend {
				continue
			}
			c.commit()
		case "behindfail":
			if c.pendingSend || c.state[r] != 1 || atomic.LoadInt32(&f.inSend) != 1 {
				continue
			}
			c.behindFail(r, op.N)
			if c.aborted {
				goto finish
			}
		case "flood":
			if c.pendingSend || c.state[r] != 1 || atomic.LoadInt32(&f.inSend) != 1 {
				continue
			}
			c.flood(r, op.N)
			goto finish
		}
		c.observe(m)
	}
finish:
	c.finish()
}

func (c *c26Child) finishConnect(r int) {
	f := c.st[r]
	if !waitFor(func() bool { return atomic.LoadInt32(&c.ctl.loops[r]) >= 1 }, c26Wait) {
		c.fail("connect did not complete")
	}
	c.lab1("GInsB", 5, r)
	c.lab1("GInsE", 6, r)
	c.state[r] = 1
	c.connAt[r] = c.nCommit
	if _, dup := c.m[f.addr]; dup {
		c.tags["same-address-overwrite"] = true
	}
	c.m[f.addr] = r
}

func (c *c26Child) finishExit(r int) {
	f := c.st[r]
	if !waitFor(func() bool { return atomic.LoadInt32(&f.done) == 1 }, c26Wait) {
		c.fail("GetWALStream did not return after a failed Send")
	}
	c.lab1("GDelB", 9, r)
	c.lab1("GDelE", 10, r)
	c.lab1("GCloseL", 11, r)
	if r2, ok := c.m[f.addr]; ok && r2 != r {
		c.tags["same-address-delete"] = true
	}
	delete(c.m, f.addr)
}

func (c *c26Child) finish() {
	res := map[string]interface{}{"holds": c.holds, "class": c.class, "detail": c.detail, "ndeliv": c.nDeliv, "ncommit": c.nCommit}
	var tl []string
	for t := range c.tags {
		tl = append(tl, t)
	}
	res["tags"] = tl
	b, _ := json.Marshal(res)
	fmt.Fprintf(c.log, "R %s\n", b)
	c.log.Flush()
	c.logf.Close()
	os.Exit(0) // leave blocked goroutines behind
}

func (c *c26Child) nLogged() int {
	c.ctl.mu.Lock()
	defer c.ctl.mu.Unlock()
	return len(c.ctl.order)
}

func (c *c26Child) keyOfAddr(a string) int {
	for _, kk := range c.in.Addrs {
		if c26AddrOf(kk) == a {
			return kk
		}
	}
	return -1
}

// emit turns the addresses the sender logged since c.base into SNext/SSend labels; when the sender is
// parked the last address gets only its SNext.
func (c *c26Child) emit(t int) {
	c.ctl.mu.Lock()
	order := append([]string{}, c.ctl.order[c.base:]...)
	c.ctl.mu.Unlock()
	parked := atomic.LoadInt32(&c.ctl.parked) == 1
	for i, a := range order {
		c.lab1("SNext", 2, c.keyOfAddr(a))
		c.visited[a] = true
		c.base++
		if parked && i == len(order)-1 {
			c.parkedT, c.parkedAddr, c.pendingSend = t, a, true
			return
		}
		c.lab0("SSend", 4)
		if r, ok := c.m[a]; ok {
			c.sent[r] = append(c.sent[r], t)
		}
	}
}

func (c *c26Child) commit() {
	t := c.nCommit
	var b [8]byte
	binary.BigEndian.PutUint64(b[:], uint64(t))
	c.snap = map[string]bool{}
	c.visited = map[string]bool{}
	for a := range c.m {
		c.snap[a] = true
	}
	c.base = c.nLogged()
	c.ctl.mu.Lock()
	bp := c.ctl.bpAddr
	c.ctl.mu.Unlock()
	c.snd.Send(b[:])
	c.nCommit++
	c.lab0("Commit", 0)
	c.lab0("SRecv", 1)
	c.lab0("SLock", 12)
	if bp != "" && c.snap[bp] {
		if !waitFor(func() bool { return atomic.LoadInt32(&c.ctl.parked) == 1 }, c26Wait) {
			c.fail("sender did not reach the breakpoint")
		}
	} else {
		want := c.base + len(c.snap)
		if !waitFor(func() bool { return c.nLogged() >= want }, c26Wait) {
			c.fail("sender did not finish its iteration")
		}
	}
	if len(c.snap) == 0 {
		time.Sleep(150 * time.Millisecond) // nothing observable tells that the sender consumed the TG
	}
	c.emit(t)
	if !c.pendingSend {
		c.lab0("SEnd", 3)
	}
	c.drainStreams()
}

// behindFail: replica r sits in stream.Send until its channel is full and the sender goroutine is blocked on that
// channel (holding the read lock); a few more TGs pile up behind; THEN r's stream.Send fails, i.e. the replica
// disconnects.  The master must resume by itself: the leaving stream's drainer frees the sender, the sender finishes
// its iteration, the stream takes the write lock, unregisters, closes and returns, and the healthy replicas get
// everything.  A deadline of 4 s decides; a master that stays blocked here is NOT the stalled-replica class (the slow
// replica is gone) but a failure of the property's "without ... blocking" clause.
func (c *c26Child) behindFail(r int, extra int) {
	f := c.st[r]
	if extra <= 0 {
		extra = 2
	}
	capC := 500
	if ch, ok := c.srv.StreamChannels[f.addr]; ok {
		capC = cap(ch)
	}
	for len(c.sent[r])-len(f.got())-1 < capC {
		c.commit()
		if c.aborted {
			return
		}
	}
	// this TG's send to r's full channel blocks the sender goroutine
	t := c.nCommit
	var b [8]byte
	binary.BigEndian.PutUint64(b[:], uint64(t))
	c.base = c.nLogged()
	c.snd.Send(b[:])
	c.nCommit++
	c.lab0("Commit", 0)
	c.lab0("SRecv", 1)
	c.lab0("SLock", 12)
	if !waitFor(func() bool {
		c.ctl.mu.Lock()
		defer c.ctl.mu.Unlock()
		for _, a := range c.ctl.order[c.base:] {
			if a == f.addr {
				return true
			}
		}
		return false
	}, c26Wait) {
		c.fail("sender did not reach the stalled replica's channel")
		return
	}
	c.ctl.mu.Lock()
	order := append([]string{}, c.ctl.order[c.base:]...)
	c.ctl.mu.Unlock()
	visited := map[string]bool{}
	for _, a := range order {
		c.lab1("SNext", 2, c.keyOfAddr(a))
		visited[a] = true
		if a == f.addr {
			break
		}
		c.lab0("SSend", 4)
		if r2, ok := c.m[a]; ok {
			c.sent[r2] = append(c.sent[r2], t)
		}
	}
	c.drainStreams()
	for i := 0; i < extra; i++ {
		var b2 [8]byte
		binary.BigEndian.PutUint64(b2[:], uint64(c.nCommit))
		c.snd.Send(b2[:])
		c.nCommit++
		c.lab0("Commit", 0)
	}
	c.tags["behind-then-disconnects"] = true
	base := c.base + len(order)
	// ---- the replica disconnects
	if !c.heldLbl[r] {
		c.lab1("GRecv", 7, r)
	}
	c.heldLbl[r] = false
	atomic.StoreInt32(&f.stalled, 0)
	f.gate <- errors.New("replica went away")
	c.labSend(r, false)
	c.lab1("GSpawn", 14, r)
	c.state[r] = 2
	healthy := func() (bool, string) {
		for r2, f2 := range c.st {
			if c.state[r2] == 1 && atomic.LoadInt32(&f2.stalled) == 0 {
				if n := len(f2.got()); n != c.nCommit-c.connAt[r2] {
					return false, fmt.Sprintf("healthy replica %d has received %d of %d transaction groups", r2, n, c.nCommit-c.connAt[r2])
				}
			}
		}
		return true, ""
	}
	if !waitFor(func() bool { ok, _ := healthy(); return ok && atomic.LoadInt32(&f.done) == 1 }, 4*time.Second) {
		_, why := healthy()
		if atomic.LoadInt32(&f.done) != 1 {
			why = "GetWALStream of the disconnected replica did not return; " + why
		}
		c.holds, c.detail = false, fmt.Sprintf("replica %d was a full channel behind and then disconnected, but 4 s later the master is still blocked: %s", r, why)
		c.class = ""
		c.tags["master-blocked-after-disconnect"] = true
		c.aborted = true
		return
	}
	// ---- reconstruct what the sender did from its log points: rest of the blocked iteration, then one iteration per queued TG
	c.lab1("GDrain", 13, r)
	c.lab0("SSend", 4)
	c.ctl.mu.Lock()
	logs := append([]string{}, c.ctl.order[base:]...)
	c.ctl.mu.Unlock()
	removed := false
	cleanup := func() {
		if !removed {
			removed = true
			c.lab1("GDelB", 9, r)
			c.lab1("GDelE", 10, r)
			c.lab1("GCloseL", 11, r)
			delete(c.m, f.addr)
		}
	}
	cur := t
	i := 0
	for {
		for i < len(logs) && !visited[logs[i]] {
			a := logs[i]
			visited[a] = true
			c.lab1("SNext", 2, c.keyOfAddr(a))
			if a == f.addr {
				c.lab1("GDrain", 13, r)
			}
			c.lab0("SSend", 4)
			if r2, ok := c.m[a]; ok && c.state[r2] == 1 {
				c.sent[r2] = append(c.sent[r2], cur)
			}
			i++
		}
		c.lab0("SEnd", 3)
		cur++
		if cur >= c.nCommit {
			break
		}
		// does the next iteration still see the leaving replica?  (it does iff its address is logged before an address repeats)
		sees := false
		seen := map[string]bool{}
		for j := i; j < len(logs) && !seen[logs[j]]; j++ {
			seen[logs[j]] = true
			if logs[j] == f.addr {
				sees = true
			}
		}
		if !sees {
			cleanup()
		}
		c.lab0("SRecv", 1)
		c.lab0("SLock", 12)
		visited = map[string]bool{}
	}
	cleanup()
	c.drainStreams()
}

// flood: replica r sits in stream.Send for ever (a replica that stopped reading).  Commit until the
// WAL loop's Sender.Send blocks: first r's channel fills (500), then the sender goroutine blocks on it,
// then the sender's own channel fills (500), then Sender.Send blocks although the other replicas are healthy.
func (c *c26Child) flood(r int, max int) {
	f := c.st[r]
	if max <= 0 {
		max = 1200
	}
	capC := 500
	if ch, ok := c.srv.StreamChannels[f.addr]; ok {
		capC = cap(ch)
	}
	senderBlocked := false
	for i := 0; i < max; i++ {
		qlen := len(c.sent[r]) - len(f.got()) - 1
		if !senderBlocked && qlen < capC {
			c.commit()
			continue
		}
		t := c.nCommit
		var b [8]byte
		binary.BigEndian.PutUint64(b[:], uint64(t))
		if !senderBlocked {
			// this TG's send to r's full channel blocks the sender goroutine
			c.base = c.nLogged()
			c.snd.Send(b[:])
			c.nCommit++
			c.lab0("Commit", 0)
			c.lab0("SRecv", 1)
			c.lab0("SLock", 12)
			if !waitFor(func() bool {
				c.ctl.mu.Lock()
				defer c.ctl.mu.Unlock()
				for _, a := range c.ctl.order[c.base:] {
					if a == f.addr {
						return true
					}
				}
				return false
			}, c26Wait) {
				c.fail("sender did not reach the stalled replica's channel")
				return
			}
			c.ctl.mu.Lock()
			order := append([]string{}, c.ctl.order[c.base:]...)
			c.ctl.mu.Unlock()
			for _, a := range order {
				c.lab1("SNext", 2, c.keyOfAddr(a))
				if a == f.addr {
					break
				}
				c.lab0("SSend", 4)
				if r2, ok := c.m[a]; ok {
					c.sent[r2] = append(c.sent[r2], t)
				}
			}
			senderBlocked = true
			c.pendingSend = true
			c.drainStreams()
			continue
		}
		done := make(chan struct{})
		go func() { c.snd.Send(b[:]); close(done) }()
		select {
		case <-done:
			c.nCommit++
			c.lab0("Commit", 0)
		case <-time.After(400 * time.Millisecond):
			c.ev("OBlocked true", 21, 1)
			c.tags["master-blocked"] = true
			if c.holds {
				c.fail(fmt.Sprintf("Sender.Send (the WAL loop) is blocked after %d commits because replica %d stopped reading; the other replicas are healthy", c.nCommit, r))
				c.class = "stalled-replica"
			}
			c.observe(c.m)
			return
		}
	}
	c.ev("OBlocked false", 21, 0)
}

// release lets the parked sender perform its  channel <- tg  and finish the iteration (it holds the read
// lock until then); afterwards the connects and disconnects that were waiting for the write lock complete.
func (c *c26Child) release() bool {
	c.pendingSend = false
	atomic.StoreInt32(&c.ctl.parked, 0)
	c.ctl.gate <- struct{}{}
	c.lab0("SSend", 4)
	if r2, ok := c.m[c.parkedAddr]; ok {
		c.sent[r2] = append(c.sent[r2], c.parkedT)
	}
	// the map cannot change during the iteration: the remaining entries are those of the snapshot not yet visited
	rest := 0
	for a := range c.snap {
		if !c.visited[a] {
			rest++
		}
	}
	want := c.base + rest
	if !waitFor(func() bool { return c.nLogged() >= want }, c26Wait) {
		c.fail("sender did not finish its iteration")
	}
	c.emit(c.parkedT)
	c.lab0("SEnd", 3)
	for _, r := range c.pendExit {
		c.finishExit(r)
	}
	c.pendExit = nil
	for _, r := range c.pendConnect {
		c.finishConnect(r)
	}
	c.pendConnect = nil
	c.drainStreams()
	return false
}

// stress: replicas connect and disconnect in tight loops while TGs are fanned out; search only.
func (c *c26Child) stress() {
	ms := c.in.Ms
	if ms <= 0 {
		ms = 150
	}
	stop := int32(0)
	var wg sync.WaitGroup
	if c.in.Mode == "stress_connect" {
		// replicas only CONNECT (fresh addresses, never fail): no close, so the only possible fault is the map one
		go func() {
			for i := 0; atomic.LoadInt32(&stop) == 0 && i < 60000; i++ {
				f := &c26fast{addr: fmt.Sprintf("10.1.%d.%d:7000", i/250, i%250), fail: func() bool { return false }}
				go func() { _ = c.srv.GetWALStream(nil, f) }()
				if i%8 == 0 {
					runtime.Gosched()
				}
			}
		}()
	}
	for r := range c.in.Addrs {
		if c.in.Mode == "stress_connect" {
			break
		}
		wg.Add(1)
		go func(r int) {
			defer wg.Done()
			n := 0
			for atomic.LoadInt32(&stop) == 0 {
				n++
				cnt := 0
				lim := 1 + n%3
				f := &c26fast{addr: c26AddrOf(c.in.Addrs[r]), fail: func() bool { cnt++; return cnt >= lim }}
				_ = c.srv.GetWALStream(nil, f)
			}
		}(r)
	}
	dl := time.Now().Add(time.Duration(ms) * time.Millisecond)
	var b [8]byte
	n := 0
	for time.Now().Before(dl) {
		binary.BigEndian.PutUint64(b[:], uint64(n))
		c.snd.Send(append([]byte{}, b[:]...))
		n++
		if n%64 == 0 {
			time.Sleep(50 * time.Microsecond)
		}
	}
	atomic.StoreInt32(&stop, 1)
	c.nCommit = n
	c.tags["stress-survived"] = true
	c.finish()
}

type c26fast struct {
	addr string
	fail func() bool
}

func (f *c26fast) Send(*pb.GetWALStreamResponse) error {
	if f.fail() {
		return errors.New("gone")
	}
	return nil
}
func (f *c26fast) Context() context.Context {
	return peer.NewContext(context.Background(), &peer.Peer{Addr: c26Addr(f.addr)})
}
func (f *c26fast) SetHeader(metadata.MD) error  { return nil }
func (f *c26fast) SendHeader(metadata.MD) error { return nil }
func (f *c26fast) SetTrailer(metadata.MD)       {}
func (f *c26fast) SendMsg(interface{}) error    { return nil }
func (f *c26fast) RecvMsg(interface{}) error    { return nil }
