// Package cq prints Gallina terms for the cases.v files evaluated inside Coq.
package cq

import (
	"encoding/hex"
	"fmt"
	"strings"
)

func Z(v int64) string {
	if v < 0 {
		return fmt.Sprintf("(%d)%%Z", v)
	}
	return fmt.Sprintf("%d%%Z", v)
}
func ZU(v uint64) string { return fmt.Sprintf("%d%%Z", v) }
func N(v uint64) string  { return fmt.Sprintf("%d%%N", v) }
func Nat(v int) string {
	if v > 5000 {
		return fmt.Sprintf("(Z.to_nat %d%%Z)", v)
	}
	return fmt.Sprintf("%d%%nat", v)
}
func Bool(b bool) string {
	if b {
		return "true"
	}
	return "false"
}

// Hex prints a byte string as a Coq string literal of hex digits (decoded by Base/Hex.unhex).
func HexStr(b []byte) string { return "\"" + hex.EncodeToString(b) + "\"%string" }

// Hex prints a byte string as the hexadecimal literal 0x1<hex>%positive (decoded by Base/Hex.unhexp);
// Coq parses number literals much faster than string literals.
func Hex(b []byte) string { return "0x1" + hex.EncodeToString(b) + "%positive" }

// Str prints a printable ASCII Go string as a Coq string literal.
func Str(s string) string {
	return "\"" + strings.ReplaceAll(s, "\"", "\"\"") + "\"%string"
}
func List(items []string) string { return "[" + strings.Join(items, "; ") + "]" }
func Tuple(items ...string) string { return "(" + strings.Join(items, ", ") + ")" }
func Some(s string) string         { return "(Some " + s + ")" }
func Rec(fields ...string) string {
	// fields: "name := value"
	return "{| " + strings.Join(fields, "; ") + " |}"
}
func F(name, val string) string { return name + " := " + val }
