"""vk — shared machinery of /verif/check (see DESIGN.md §2, §3).

Every property check is a Python module checks/Cxx.py exposing SPEC (a dict) and optionally
run(ctx).  The default flow `standard_check(SPEC, ctx)` does, on every run:

  T   gen: regenerate coq/Generated/*.v from /repo's working tree (translator)
  P   make the Coq cone of the property (full .vo build), forbidden-word gate, Print Assumptions
  H   go build -tags verif of the harness against /repo's working tree
  D   implrun: corpus + generated cases through the REAL code; cases.v evaluated inside Coq by
      vm_compute against the model (mismatches must be []); property oracle on every impl output
  K   known findings: classified oracle failures -> KNOWN-FINDING lines; anything else -> VIOLATION
  S   when P or D is broken: search (more streams, neighbours) for a failing input; report
      VIOLATION with the replay, or VIOLATION ... no-failing-input-found
  E   evidence/<id>.json
"""
import concurrent.futures
import fcntl
import glob
import hashlib
import json
import os
import re
import shutil
import subprocess
import sys
import time

ROOT = os.path.dirname(os.path.dirname(os.path.abspath(__file__)))
REPO = os.environ.get("VERIF_REPO", "/repo")
COQ = os.path.join(ROOT, "coq")
HARNESS = os.path.join(ROOT, "harness")
GEN = os.path.join(ROOT, "gen")
NPROC = int(os.environ.get("VERIF_NPROC", "16"))

FORBIDDEN = re.compile(
    r"\b(Admitted|admit|Axiom|Axioms|Parameter|Parameters|Conjecture|Conjectures|Hypothesis|Hypotheses|Variable|Variables)\b"
    r"|Unset\s+Guard|bypass_check|type-in-type|impredicative-set|Admit\s+Obligations|native_compute")
# Variable/Hypothesis are legal inside a Section; the gate checks that separately.

ALLOWED_AXIOM_PREFIXES = (
    # Coq standard library's own axioms (DESIGN §4); each one that actually occurs is listed in evidence
    "FloatAxioms.", "PrimInt63.", "Uint63Axioms", "Uint63.", "PrimFloat.", "Sint63",
    "ClassicalDedekindReals.", "FunctionalExtensionality.functional_extensionality_dep",
    "functional_extensionality_dep", "Classical_Prop.classic", "classic",
    "ProofIrrelevance.proof_irrelevance", "proof_irrelevance", "JMeq.JMeq_eq", "JMeq_eq",
    "Eqdep.Eq_rect_eq.eq_rect_eq", "eq_rect_eq", "sig_forall_dec", "sig_not_dec",
    "Rdefinitions.", "Raxioms.", "ClassicalEpsilon", "constructive_indefinite_description",
    "Float64", "float", "int",
)


def goenv():
    e = dict(os.environ)
    e.update(GOFLAGS="-mod=mod", GOPROXY="off", GOSUMDB="off", GOTOOLCHAIN="local")
    e.setdefault("GOCACHE", os.path.expanduser("~/.cache/go-build"))
    return e


def _big_stack():
    """coqc overflows the default 8 MB stack on large case lists: lift the soft limit to the hard one."""
    try:
        import resource
        soft, hard = resource.getrlimit(resource.RLIMIT_STACK)
        resource.setrlimit(resource.RLIMIT_STACK, (hard, hard))
    except Exception:
        pass


def sh(cmd, cwd=ROOT, timeout=1800, env=None, stdin=None):
    t0 = time.time()
    try:
        p = subprocess.run(cmd, cwd=cwd, env=env, input=stdin, stdout=subprocess.PIPE, preexec_fn=_big_stack,
                           stderr=subprocess.STDOUT, timeout=timeout, shell=isinstance(cmd, str), text=True)
        return p.returncode, p.stdout, time.time() - t0
    except subprocess.TimeoutExpired as ex:
        out = ex.stdout or ""
        if isinstance(out, bytes):
            out = out.decode("utf-8", "replace")
        return 124, out + "\n[timeout after %ss]" % timeout, time.time() - t0


class Lock:
    def __init__(self, path):
        self.path = path

    def __enter__(self):
        self.f = open(self.path, "w")
        fcntl.flock(self.f, fcntl.LOCK_EX)
        return self

    def __exit__(self, *a):
        fcntl.flock(self.f, fcntl.LOCK_UN)
        self.f.close()


# ----------------------------------------------------------------------------- T: translator
def step_gen():
    """Rebuild gen (it is tiny) and regenerate coq/Generated/*.v from REPO. Returns (ok, log)."""
    with Lock(os.path.join(GEN, ".lock")):
        os.makedirs(os.path.join(GEN, "bin"), exist_ok=True)
        rc, out, _ = sh(["go", "build", "-o", "bin/gen", "."], cwd=GEN, env=goenv(), timeout=300)
        if rc != 0:
            return False, "gen build failed:\n" + out
        rc, out, _ = sh([os.path.join(GEN, "bin/gen"), REPO, os.path.join(GEN, "conf.d"),
                         os.path.join(COQ, "Generated")], cwd=GEN, timeout=300)
        return rc == 0, out


# ----------------------------------------------------------------------------- P: Coq
COQ_DIRS = ["Base", "Generated", "Spec", "Model", "Proofs", "Properties", "Corr"]


def coq_files():
    fs = []
    for d in COQ_DIRS:
        fs += sorted(glob.glob(os.path.join(COQ, d, "**", "*.v"), recursive=True))
    return [os.path.relpath(f, COQ) for f in fs]


def ensure_makefile():
    head = open(os.path.join(COQ, "_CoqProject.head")).read()
    want = head + "\n".join(coq_files()) + "\n"
    cp = os.path.join(COQ, "_CoqProject")
    cur = open(cp).read() if os.path.exists(cp) else ""
    if cur != want or not os.path.exists(os.path.join(COQ, "Makefile")):
        open(cp, "w").write(want)
        rc, out, _ = sh(["coq_makefile", "-f", "_CoqProject", "-o", "Makefile"], cwd=COQ)
        if rc != 0:
            raise RuntimeError("coq_makefile failed: " + out)


def coq_make(targets=None, timeout=3000):
    """Full .vo build (never -vos) of the given .vo targets (default: everything). (ok, log)."""
    with Lock(os.path.join(COQ, ".lock")):
        ensure_makefile()
        cmd = ["make", "-j%d" % NPROC] + (targets or [])
        rc, out, dt = sh(cmd, cwd=COQ, timeout=timeout)
        return rc == 0, out, " ".join(cmd)


def cone(vfiles):
    """Transitive closure of MS.* dependencies of the given .v files (paths relative to coq/)."""
    seen, todo = [], list(vfiles)
    while todo:
        f = todo.pop()
        if f in seen or not os.path.exists(os.path.join(COQ, f)):
            continue
        seen.append(f)
        src = open(os.path.join(COQ, f)).read()
        src = re.sub(r"\(\*.*?\*\)", "", src, flags=re.S)
        for m in re.finditer(r"\bMS\.(\w+(?:\.\w+)*)", src):
            parts = m.group(1).split(".")
            # MS.Dir.File or MS.Dir.File.ident : try the longest prefix that is a file
            for k in range(len(parts), 0, -1):
                cand = "/".join(parts[:k]) + ".v"
                if os.path.exists(os.path.join(COQ, cand)):
                    todo.append(cand)
                    break
    return sorted(seen)


STMT = re.compile(r"^\s*(Theorem|Lemma|Corollary|Example|Fact|Remark|Proposition)\s+([\w']+)", re.M)


def obligations(vfiles):
    """(count, per-file dict) of proof statements in the cone."""
    per = {}
    for f in cone(vfiles):
        src = re.sub(r"\(\*.*?\*\)", "", open(os.path.join(COQ, f)).read(), flags=re.S)
        per[f] = len(STMT.findall(src))
    return sum(per.values()), per


def discharged(per):
    """Statements whose file has an up-to-date .vo."""
    n = 0
    for f, k in per.items():
        v = os.path.join(COQ, f)
        vo = v[:-2] + ".vo"
        if os.path.exists(vo) and os.path.getmtime(vo) >= os.path.getmtime(v):
            n += k
    return n


def gate(vfiles):
    """Forbidden-word gate over the cone (comments stripped). Returns list of offences."""
    bad = []
    for f in cone(vfiles):
        src = open(os.path.join(COQ, f)).read()
        src = re.sub(r"\(\*.*?\*\)", lambda m: re.sub(r"[^\n]", " ", m.group(0)), src, flags=re.S)
        depth = 0
        for ln, line in enumerate(src.split("\n"), 1):
            if re.match(r"\s*Section\b", line):
                depth += 1
            if re.match(r"\s*End\b", line) and depth > 0:
                depth -= 1
            for m in FORBIDDEN.finditer(line):
                w = m.group(0)
                if w.split()[0] in ("Variable", "Variables", "Hypothesis", "Hypotheses") and depth > 0:
                    continue  # section-local assumption (recorded in the trusted base)
                if w in ("Context",):
                    continue
                bad.append("%s:%d: %s" % (f, ln, w))
    return bad


def print_assumptions(prop, module, theorems, timeout=600):
    """Run Print Assumptions on each theorem; returns (ok, {thm: [axioms]}, log)."""
    os.makedirs(os.path.join(COQ, "Cases"), exist_ok=True)
    name = "%s_assum_%d" % (prop, os.getpid())
    path = os.path.join(COQ, "Cases", name + ".v")
    with open(path, "w") as f:
        f.write("Require Import %s.\n" % module)
        for t in theorems:
            f.write('Goal True. idtac "@@BEGIN %s". Abort.\nPrint Assumptions %s.\n' % (t, t))
        f.write('Goal True. idtac "@@END". Abort.\n')
    rc, out, _ = sh(["coqc", "-Q", ".", "MS", "Cases/%s.v" % name], cwd=COQ, timeout=timeout)
    for ext in (".v", ".vo", ".vok", ".vos", ".glob"):
        try:
            os.remove(os.path.join(COQ, "Cases", name + ext))
        except OSError:
            pass
    try:
        os.remove(os.path.join(COQ, "Cases", "." + name + ".aux"))
    except OSError:
        pass
    res = {}
    if rc != 0:
        return False, res, out
    cur = None
    for line in out.split("\n"):
        m = re.match(r"@@BEGIN (\S+)", line)
        if m:
            cur = m.group(1)
            res[cur] = []
            continue
        if line.startswith("@@END"):
            cur = None
            continue
        if cur is None:
            continue
        if "Closed under the global context" in line or line.strip() in ("", "Axioms:"):
            continue
        m = re.match(r"^([A-Za-z_][\w.']*)\s*:", line)
        if m:
            res[cur].append(m.group(1))
    return True, res, out


def coqchk(module, timeout=1500):
    """Independent re-check of the compiled module and everything it depends on (thorough tier).
    Returns (ok, summary_text)."""
    with Lock(os.path.join(COQ, ".lock")):
        rc, out, dt = sh(["coqchk", "-silent", "-o", "-Q", ".", "MS", module], cwd=COQ, timeout=timeout)
    if rc == 124:
        # coqchk re-checks the whole dependency cone (Flocq + Reals take > 25 min): not a verdict either way
        return None, "coqchk did not finish within %d s (cone includes Flocq/Coq.Reals); the coqc build and Print Assumptions are the check of record for this run" % timeout
    i = out.find("CONTEXT SUMMARY")
    summ = out[i:] if i >= 0 else out[-2000:]
    return rc == 0, summ


def axioms_allowed(ax):
    return any(ax.startswith(p) or ax.split(".")[-1].startswith(p) for p in ALLOWED_AXIOM_PREFIXES)


# ----------------------------------------------------------------------------- H: harness
def build_harness(extra_tags=""):
    """go build -tags verif of harness/cmd/... against REPO's working tree (replace directive)."""
    with Lock(os.path.join(HARNESS, ".lock")):
        os.makedirs(os.path.join(HARNESS, "bin"), exist_ok=True)
        tags = "verif" + ("," + extra_tags if extra_tags else "")
        gm = os.path.join(HARNESS, "go.mod")
        cmd = ["go", "build", "-tags", tags, "-o", "bin/", "./cmd/..."]
        if os.path.realpath(REPO) == "/repo":
            shutil.copyfile(os.path.join(REPO, "go.sum"), os.path.join(HARNESS, "go.sum"))
        else:
            # VERIF_REPO points at a scratch worktree: build with an alternative go.mod
            alt = os.path.join(HARNESS, "alt.mod")
            open(alt, "w").write(open(gm).read().replace("=> /repo", "=> " + os.path.realpath(REPO)))
            shutil.copyfile(os.path.join(REPO, "go.sum"), os.path.join(HARNESS, "alt.sum"))
            cmd = ["go", "build", "-modfile", alt, "-tags", tags, "-o", "bin/", "./cmd/..."]
        rc, out, dt = sh(cmd, cwd=HARNESS, env=goenv(), timeout=1500)
        return rc == 0, out


def scratch_dir(prop):
    base = os.environ.get("VERIF_SCRATCH", os.path.join(ROOT, "scratch"))
    d = os.path.join(base, "%s.%d" % (prop, os.getpid()))
    shutil.rmtree(d, ignore_errors=True)
    os.makedirs(d)
    return d


def run_impl(prop, out, seed, n, tier, corpus=None, stream=0, input_file=None, neighbours=None, timeout=3000, binary="implrun"):
    cmd = [os.path.join(HARNESS, "bin", binary), prop, "-seed", str(seed), "-n", str(n), "-tier", tier,
           "-out", out, "-stream", str(stream)]
    if corpus and os.path.isdir(corpus):
        cmd += ["-corpus", corpus]
    if input_file:
        cmd += ["-input", input_file]
    if neighbours:
        cmd += ["-neighbours", neighbours]
    rc, outp, dt = sh(cmd, cwd=ROOT, timeout=timeout, env=goenv())
    return rc == 0, outp


def read_cases(out):
    rows = []
    p = os.path.join(out, "cases.jsonl")
    if os.path.exists(p):
        for line in open(p):
            if line.strip():
                rows.append(json.loads(line))
    return rows


# ----------------------------------------------------------------------------- D: in-Coq evaluation
COQ_PRELUDE = "From Coq Require Import List NArith ZArith String Bool.\nImport ListNotations.\nRequire Import MS.Corr.Common.\n"


def _split_cases(casesv):
    """cases.v is 'Definition cases : list T := [\n c1;\n c2 ... \n].' with one case per line."""
    lines = open(casesv).read().split("\n")
    head = lines[0]
    body = [l for l in lines[1:] if l.strip() and l.strip() != "]."]
    body = [l[:-1] if l.endswith(";") else l for l in body]
    return head, body


def coq_eval(prop, out, require, queries, shard=120, timeout=1500):
    """Evaluate, inside Coq (vm_compute), boolean/index queries over the cases of `out`.

    queries: list of (name, kind, expr) — kind 'mism': expr is a predicate `case -> bool`, result =
    global indices where it is false; kind 'count': number of cases where it is true.
    Returns (ok, {name: list|int}, log).
    """
    head, body = _split_cases(os.path.join(out, "cases.v"))
    res = {n: ([] if k == "mism" else 0) for n, k, _ in queries}
    if not body:
        return True, res, "no cases"
    os.makedirs(os.path.join(COQ, "Cases"), exist_ok=True)
    shards = [(i, body[i:i + shard]) for i in range(0, len(body), shard)]
    tag = "%s_%d" % (prop, os.getpid())

    def one(si, depth=0):
        off, cs = si
        r = one_raw(si)
        if r[1] != 0 and len(cs) > 1 and ("Stack overflow" in r[2] or "Out of memory" in r[2]) and depth < 8:
            # a shard too big for coqc: split it and evaluate the halves (indices stay global)
            try:
                os.remove(r[3])
            except OSError:
                pass
            h = len(cs) // 2
            a = one((off, cs[:h]), depth + 1)
            b = one((off + h, cs[h:]), depth + 1)
            return ("multi", [a, b])
        return r

    def flatten(r):
        if r[0] == "multi":
            for x in r[1]:
                yield from flatten(x)
        else:
            yield r

    def one_raw(si):
        off, cs = si
        name = "%s_s%d_%d" % (tag, off, len(cs))
        path = os.path.join(COQ, "Cases", name + ".v")
        with open(path, "w") as f:
            f.write(COQ_PRELUDE + require + "\n")
            f.write(head + "\n" + ";\n".join(cs) + "\n].\n")
            for n, k, e in queries:
                if k == "mism":
                    f.write("Definition Q_%s := Eval vm_compute in mismatches (%s) cases.\n" % (n, e))
                else:
                    f.write("Definition Q_%s := Eval vm_compute in count_true (%s) cases.\n" % (n, e))
                f.write('Goal True. idtac "@@Q %s". Abort.\nPrint Q_%s.\n' % (n, n))
            f.write('Goal True. idtac "@@END". Abort.\n')
        rc, o, _ = sh(["coqc", "-Q", ".", "MS", "Cases/%s.v" % name], cwd=COQ, timeout=timeout)
        for ext in (".vo", ".vok", ".vos", ".glob"):
            try:
                os.remove(os.path.join(COQ, "Cases", name + ext))
            except OSError:
                pass
        try:
            os.remove(os.path.join(COQ, "Cases", "." + name + ".aux"))
        except OSError:
            pass
        if rc == 0:
            os.remove(path)
        return off, rc, o, path

    ok, log = True, ""
    with concurrent.futures.ThreadPoolExecutor(max_workers=NPROC) as ex:
        results = [x for r in ex.map(one, shards) for x in flatten(r)]
        for off, rc, o, path in results:
            if rc != 0:
                ok = False
                log += "shard %d failed (%s):\n%s\n" % (off, path, o[-3000:])
                continue
            cur = None
            buf = {}
            for line in o.split("\n"):
                m = re.match(r"@@Q (\S+)", line)
                if m:
                    cur = m.group(1)
                    buf[cur] = ""
                    continue
                if line.startswith("@@END"):
                    cur = None
                    continue
                if cur:
                    buf[cur] += line + " "
            for n, k, _ in queries:
                txt = buf.get(n, "")
                txt = txt.split(":", 1)[0] if False else txt
                eq = txt.find("=")
                val = txt[eq + 1:] if eq >= 0 else ""
                # cut the trailing type annotation
                val = re.split(r"\s:\s", val)[0]
                nums = [int(x) for x in re.findall(r"(\d+)%N", val)]
                if k == "mism":
                    res[n] += [off + x for x in nums]
                else:
                    if not nums:
                        nums = [int(x) for x in re.findall(r"\b(\d+)\b", val)][:1]
                    res[n] += nums[0] if nums else 0
    return ok, res, log


# ----------------------------------------------------------------------------- K: known findings
def known_findings(prop):
    """Parse /verif/known_findings.txt -> (findings, fixed) for this property."""
    f, x = [], []
    p = os.path.join(ROOT, "known_findings.txt")
    if not os.path.exists(p):
        return f, x
    for line in open(p):
        line = line.strip()
        if not line or line.startswith("#"):
            continue
        kind, _, rest = line.partition(":")
        kv = {}
        m = re.search(r"\bwhat=(.*)$", rest)
        if m:
            kv["what"] = m.group(1).strip()
            rest = rest[:m.start()]
        for tok in rest.split():
            if "=" in tok:
                a, b = tok.split("=", 1)
                kv[a] = b
        if kv.get("property") != prop:
            continue
        (f if kind.strip() == "finding" else x).append(kv)
    return f, x


# ----------------------------------------------------------------------------- reporting
class Ctx:
    def __init__(self, prop, tier, seed):
        self.prop, self.tier, self.seed = prop, tier, seed
        self.t0 = time.time()
        self.lines = []
        self.violations = []
        self.known_lines = []
        self.notes = []

    def say(self, s):
        print(s, flush=True)

    def known(self, what):
        l = "KNOWN-FINDING: property=%s %s" % (self.prop, what)
        if l not in self.known_lines:
            self.known_lines.append(l)
            self.say(l)

    def violation(self, replay_obj, no_input=False):
        os.makedirs(os.path.join(ROOT, "replays"), exist_ok=True)
        blob = json.dumps(replay_obj, sort_keys=True, default=str)
        h = hashlib.sha1(blob.encode()).hexdigest()[:12]
        path = os.path.join(ROOT, "replays", "%s-%s.json" % (self.prop, h))
        replay_obj = dict(replay_obj)
        replay_obj.setdefault("property", self.prop)
        replay_obj.setdefault("rerun", "./check %s --replay %s" % (self.prop, os.path.relpath(path, ROOT)))
        with open(path, "w") as f:
            json.dump(replay_obj, f, indent=1, default=str)
        line = "VIOLATION property=%s replay=%s" % (self.prop, path)
        if no_input:
            line += " no-failing-input-found"
        self.violations.append(line)
        self.say(line)
        return path


def write_evidence(ctx, level, coverage, assumptions=None):
    os.makedirs(os.path.join(ROOT, "evidence"), exist_ok=True)
    ev = {
        "property_id": ctx.prop, "tier": ctx.tier, "seed": int(ctx.seed), "level": level,
        "coverage": coverage, "assumptions": assumptions or [],
        "wall_s": round(time.time() - ctx.t0, 2), "violations": len(ctx.violations),
        "known_findings_reported": ctx.known_lines, "notes": ctx.notes,
    }
    with open(os.path.join(ROOT, "evidence", ctx.prop + ".json"), "w") as f:
        json.dump(ev, f, indent=1, default=str)


# ----------------------------------------------------------------------------- the standard flow
def standard_check(spec, ctx, replay=None):
    """spec keys:
      id, coq_props (list of Properties/*.v + Corr/*.v forming the cone roots), module (MS.Properties.Cxx),
      theorems (names to Print Assumptions), corr_require, agrees, in_domain (opt), model_prop (opt),
      n_quick, n_thorough, trusted_base (list), assumptions (list), level (default 'proof'),
      search_streams (default 3), post (optional callable(ctx, rows, info) for extra oracles)
    """
    prop = spec["id"]
    roots = spec["coq_props"]
    tier = ctx.tier
    broken = []          # (kind, name, message)
    info = {"replay": replay}

    # ---- T
    ok, log = step_gen()
    if not ok:
        broken.append(("translation", "gen", log[-2000:]))
    # ---- P
    targets = [r[:-2] + ".vo" for r in roots]
    okc, logc, cmdline = coq_make(targets)
    n_obl, per = obligations(roots)
    n_dis = discharged(per) if okc else sum(k for f, k in per.items()
                                             if os.path.exists(os.path.join(COQ, f[:-2] + ".vo"))
                                             and os.path.getmtime(os.path.join(COQ, f[:-2] + ".vo")) >= os.path.getmtime(os.path.join(COQ, f)))
    if not okc:
        m = re.search(r'File "\./([^"]+)", line (\d+)[^\n]*\n(.*?)(?:\nmake|\Z)', logc, re.S)
        name = "%s:%s" % (m.group(1), m.group(2)) if m else "coq build"
        broken.append(("proof", name, logc[-2500:]))
    offences = gate(roots)
    if offences:
        broken.append(("gate", "forbidden construct", "\n".join(offences)))
    ax = {}
    if okc:
        oka, ax, loga = print_assumptions(prop, spec["module"], spec["theorems"])
        if not oka:
            broken.append(("proof", "Print Assumptions", loga[-2000:]))
        for t, l in ax.items():
            for a in l:
                if not axioms_allowed(a):
                    broken.append(("axiom", t, "theorem %s depends on non-allow-listed assumption %s" % (t, a)))
    if okc and tier == "thorough" and not replay:
        okk, summ = coqchk(spec["module"])
        info.setdefault("extra_coverage", {})["coqchk"] = summ[:3000]
        if okk is None:
            ctx.notes.append(summ)
        elif not okk:
            broken.append(("proof", "coqchk " + spec["module"], summ[-2000:]))
        else:
            m = re.search(r"\* Axioms:(.*?)\n\s*\n\* Constants", summ, re.S)
            axs = [a.strip() for a in (m.group(1) if m else "").split("\n") if a.strip() and a.strip() != "<none>"]
            info["extra_coverage"]["coqchk_axioms"] = axs
            for a in axs:
                if not axioms_allowed(a):
                    broken.append(("axiom", "coqchk", "coqchk reports non-allow-listed axiom " + a))
            for bad in ("type-in-type: <none>", "unsafe (co)fixpoints: <none>", "positivity is assumed: <none>"):
                if bad not in summ:
                    broken.append(("proof", "coqchk", "coqchk summary lacks '%s'" % bad))
    # ---- H
    okh, logh = build_harness()
    if not okh:
        broken.append(("correspondence", "harness build against /repo", logh[-2500:]))
        return finish(spec, ctx, broken, [], {}, n_obl, n_dis, cmdline, ax, info, None)
    # ---- D
    out = scratch_dir(prop)
    n = spec.get("n_thorough", 5000) if tier == "thorough" else spec.get("n_quick", 400)
    corpus = os.path.join(ROOT, "corpus", prop)
    if replay:
        okr, logr = run_impl(prop, out, ctx.seed, 0, tier, input_file=replay, binary=spec.get("binary", "implrun"))
    else:
        okr, logr = run_impl(prop, out, ctx.seed, n, tier, corpus=corpus, binary=spec.get("binary", "implrun"))
    if not okr:
        broken.append(("correspondence", "implrun", logr[-2500:]))
    rows = read_cases(out)
    qres = {}
    if okc and rows:
        queries = [("M", "mism", spec["agrees"])]
        if spec.get("in_domain"):
            queries.append(("D", "count", spec["in_domain"]))
        if spec.get("model_prop"):
            queries.append(("PV", "mism", spec["model_prop"]))
        oke, qres, loge = coq_eval(prop, out, spec["corr_require"], queries, shard=spec.get("shard", 120))
        if not oke:
            broken.append(("correspondence", "in-Coq evaluation of cases", loge[-2500:]))
        for i in qres.get("M", []):
            broken.append(("correspondence", "D:%s/case %d" % (prop, i),
                           json.dumps({"case": rows[i] if i < len(rows) else None})[:6000]))
        for i in qres.get("PV", []):
            broken.append(("proof", "model refutes the guarded theorem on case %d" % i,
                           json.dumps({"case": rows[i] if i < len(rows) else None})[:6000]))
    info["qres"] = qres
    info["out"] = out
    if spec.get("post"):
        spec["post"](ctx, rows, info, broken)
    return finish(spec, ctx, broken, rows, qres, n_obl, n_dis, cmdline, ax, info, out)


def classify(spec, ctx, rows):
    """Oracle failures -> (unlisted [rows], listed {class: [rows]})."""
    findings, fixed = known_findings(spec["id"])
    classes = {f.get("class"): f for f in findings}
    unlisted, listed = [], {}
    for r in rows:
        if r.get("holds", True):
            continue
        c = r.get("class") or ""
        if c and c in classes:
            listed.setdefault(c, []).append(r)
        else:
            unlisted.append(r)
    return unlisted, listed, classes


def finish(spec, ctx, broken, rows, qres, n_obl, n_dis, cmdline, ax, info, out):
    prop = spec["id"]
    unlisted, listed, classes = classify(spec, ctx, rows)
    # known findings: each listed class must still be witnessed (corpus witness runs first in every run)
    for c, f in classes.items():
        hits = listed.get(c, [])
        if hits:
            ctx.known("class=%s %s (witnessed on %d case(s) this run, e.g. %s)" % (
                c, f.get("what", ""), len(hits), hits[0].get("source")))
        else:
            ctx.notes.append("known finding class %s was not witnessed in this run (fixed or not generated)" % c)
    # genuine, unlisted oracle failures -> VIOLATION with the input as replay
    for r in unlisted[:5]:
        ctx.violation({"kind": "failing-input", "input": r.get("input"), "observed": r.get("obs"),
                       "detail": r.get("detail"), "class": r.get("class"), "source": r.get("source")})
    # broken proof / correspondence without an unlisted failing input -> search
    if broken and not unlisted:
        found = search(spec, ctx, broken, rows, info)
        if not found:
            kinds = sorted(set(b[0] for b in broken))
            ctx.violation({"kind": "unproved", "broken": [{"kind": k, "name": n, "message": m} for k, n, m in broken[:8]],
                           "explanation": "the property is no longer shown to hold: " + ", ".join(kinds) +
                                          " broken; the search over the implementation found no failing input"},
                          no_input=True)
    elif broken:
        ctx.notes.append("also broken: " + "; ".join("%s %s" % (k, n) for k, n, _ in broken[:8]))
    # ---- E
    tags = {}
    keys, nontriv = set(), set()
    for r in rows:
        for t in r.get("tags") or []:
            tags[t] = tags.get(t, 0) + 1
        keys.add(r.get("key"))
        if r.get("nontrivial"):
            nontriv.add(r.get("key"))
    samples = []
    for r in rows[:3] + [x for x in rows if not x.get("holds", True)][:2]:
        samples.append({"source": r.get("source"), "input": r.get("input"), "observed": r.get("obs"),
                        "oracle_holds": r.get("holds"), "class": r.get("class")})
    samples = json.loads(json.dumps(samples, default=str)[:200000]) if len(json.dumps(samples, default=str)) < 200000 else samples[:1]
    cov = {
        "obligations": n_obl, "discharged": n_dis if not any(b[0] in ("proof", "gate", "axiom", "translation") for b in broken) else min(n_dis, max(n_obl - 1, 0)),
        "checker_cmd": "cd coq && %s   (coqc 8.16.1 full .vo build; Print Assumptions on %s)" % (cmdline, ", ".join(spec["theorems"])),
        "trusted_base": spec.get("trusted_base", []),
        "theorems": spec["theorems"], "print_assumptions": ax,
        "evaluations": len(rows), "distinct_nontrivial": len(nontriv), "distinct": len(keys),
        "rule": spec.get("rule", ""), "samples": samples,
        "disagreements_checked": len(rows) if qres else 0,
        "model_impl_mismatches": len(qres.get("M", [])) if qres else None,
        "in_theorem_domain": qres.get("D") if qres else None,
        "oracle_failures_listed": {c: len(v) for c, v in listed.items()},
        "oracle_failures_unlisted": len(unlisted),
        "input_distribution": tags,
        "broken": [{"kind": k, "name": n} for k, n, _ in broken],
    }
    cov.update(info.get("extra_coverage", {}))
    if not info.get("replay"):
        write_evidence(ctx, spec.get("level", "proof"), cov, spec.get("assumptions", []))
    if out and not os.environ.get("VERIF_KEEP"):
        shutil.rmtree(out, ignore_errors=True)
    return 1 if ctx.violations else 0


def search(spec, ctx, broken, rows, info):
    """After a broken obligation/correspondence: look for an input on which the PROPERTY fails in the
    implementation — neighbours of the disagreeing cases first, then fresh generator streams."""
    prop = spec["id"]
    streams = spec.get("search_streams", 4 if ctx.tier == "quick" else 12)
    n = (spec.get("n_quick", 400) if ctx.tier == "quick" else spec.get("n_thorough", 5000))
    out = scratch_dir(prop + ".search")
    found = False
    try:
        # neighbours of the first disagreeing cases
        mism = (info.get("qres") or {}).get("M", [])[:3]
        for i in mism:
            if i < len(rows):
                nf = os.path.join(out, "n%d.json" % i)
                open(nf, "w").write(json.dumps(rows[i].get("input")))
                ok, _ = run_impl(prop, out, ctx.seed, 0, ctx.tier, neighbours=nf, binary=spec.get("binary", "implrun"))
                for r in read_cases(out):
                    if not r.get("holds", True) and not (r.get("class") and r.get("class") in {f.get("class") for f in known_findings(prop)[0]}):
                        ctx.violation({"kind": "failing-input", "found_by": "neighbourhood search after " + broken[0][1],
                                       "input": r.get("input"), "observed": r.get("obs"), "detail": r.get("detail")})
                        return True
        for s in range(1, streams + 1):
            ok, _ = run_impl(prop, out, ctx.seed, n, ctx.tier, stream=s, binary=spec.get("binary", "implrun"))
            listed_classes = {f.get("class") for f in known_findings(prop)[0]}
            for r in read_cases(out):
                if not r.get("holds", True) and not (r.get("class") and r.get("class") in listed_classes):
                    ctx.violation({"kind": "failing-input", "found_by": "stream %d search after %s" % (s, broken[0][1]),
                                   "input": r.get("input"), "observed": r.get("obs"), "detail": r.get("detail")})
                    return True
    finally:
        shutil.rmtree(out, ignore_errors=True)
    return found
