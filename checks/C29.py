SPEC = {
    "id": "C29",
    "coq_props": ["Properties/C29.v", "Corr/C29.v"],
    "module": "MS.Properties.C29",
    "theorems": ["C29_roundtrip", "C29_guard_sound", "C29_aligned", "C29_refuted"],
    "corr_require": "Require Import MS.Corr.C29.",
    "agrees": "C29.agrees",
    "in_domain": "C29.in_domain",
    "model_prop": "fun k => implb (C29.in_domain k) (C29.model_roundtrip k)",
    "n_quick": 600,
    "n_thorough": 8000,
    "rule": "see harness/props/c29.go: 0-6 extra columns over all 12 fixed-width types, 0-6 rows (0-40 thorough), aligned or not, "
            "~25% malformed; distinct = distinct input; non-trivial = inside the theorem's guard with >=1 row and >=2 columns",
    "trusted_base": [
        "Coq 8.16.1 kernel + vm_compute (no native_compute); axioms: none (Closed under the global context)",
        "translator gen/: attr_size, Src_io.AlignedSize and the element-type enum are regenerated from utils/io on every run",
        "hand-written model coq/Model/Rows.v of SerializeColumnsToRows/Rows.GetColumn, tied by in-Coq evaluation of every "
        "generated case against ToRowSeries/GetColumn of the real code (harness/props/c29.go)",
        "Go harness, Python driver lib/vk.py",
    ],
    "assumptions": [
        "column values are compared as little-endian bit patterns; the Go element type of a returned BYTE/BOOL column ([]byte) is not compared",
        "SerializeColumnsToRows is modelled for dataShapes = the series' own shapes (the ToRowSeries path); the coercion path is C14's",
    ],
    "level": "proof",
    "level_text": "Coq theorem C29_roundtrip: for EVERY well-formed column series (any number of columns over the fixed-width types, any "
                  "values, any row count, aligned or not) serialize succeeds with the stated record length and GetColumn returns each "
                  "column's exact bytes; C29_refuted exhibits the epoch-like-name defect outside the guard. The model is tied to the code "
                  "by translation of AlignedSize/type sizes and by differential in-Coq evaluation on every run.",
    "level_note": "No axioms. Trusted: Coq kernel/VM, gen translator, harness. Modelled not verified: columnseries.go SerializeColumnsToRows "
                  "(ToRowSeries path), rowseries.go GetColumn/GetNumRows/SetRowLen, datatypes.go get<T>Column/Size.",
    "design_ref": "§6 C29",
}
