import json
import os
import subprocess

ROOT = os.path.dirname(os.path.dirname(os.path.abspath(__file__)))


def post(ctx, rows, info, broken):
    """Regression replay of the FIXED finding trigger-writes-during-fire on the real dispatcher: harness/cmd/c32nested runs
    in its own process (the race could also end in a Go fatal error) and searches up to N synchronous flushes, with a
    trigger that writes from Fire, for a second delivery.  Any hit is an unlisted oracle failure -> VIOLATION."""
    if info.get("replay"):
        return
    witness = os.path.join(ROOT, "corpus", "C32", "nested", "nested_write.json")
    tool = os.path.join(ROOT, "harness", "bin", "c32nested")
    if not (os.path.exists(witness) and os.path.exists(tool)):
        return
    for attempt in range(3):
        try:
            p = subprocess.run([tool, witness], stdout=subprocess.PIPE, stderr=subprocess.PIPE, timeout=150, text=True)
            out, err, rc = p.stdout, p.stderr, p.returncode
        except subprocess.TimeoutExpired:
            out, err, rc = "", "timeout", 124
        obs, detail = None, ""
        for line in out.splitlines():
            if line.startswith("{") and '"attempts"' in line:
                try:
                    obs = json.loads(line)
                except ValueError:
                    pass
        died = [l for l in (out + "\n" + err).splitlines() if l.startswith("fatal error:") or l.startswith("panic:")]
        if obs and obs.get("duplicate"):
            detail = obs.get("detail", "")
        elif rc not in (0, 124) and died:
            detail = "the process died in the concurrent synchronous flush: " + died[0]
            obs = {"exit": rc, "died": died[0]}
        if detail:
            rows.append({"i": len(rows), "source": "c32nested:corpus/C32/nested/nested_write.json",
                         "input": json.load(open(witness)), "obs": obs, "holds": False,
                         "class": "trigger-writes-during-fire", "detail": detail, "in_domain": False,
                         "tags": ["nested-write-replay"], "nontrivial": False, "key": "c32nested"})
            return
    ctx.notes.append("c32nested: 3 x 400 synchronous flushes with a writing trigger, every record delivered exactly once")


SPEC = {
    "id": "C32",
    "coq_props": ["Properties/C32.v", "Corr/C32.v"],
    "module": "MS.Properties.C32",
    "theorems": ["C32_match_spec", "C32_exactly_once", "C32_multiplicity", "C32_no_foreign", "C32_schedules",
                 "C32_never_too_much", "C32_progress", "C32_terminates", "C32_reaches_quiescence", "C32_match_unanchored",
                 "C32_sync_invariant", "C32_sync_never_too_much", "C32_sync_exactly_once"],
    "corr_require": "Require Import MS.Corr.C32.",
    "agrees": "C32.agrees",
    "in_domain": "C32.in_domain",
    "model_prop": "fun k => implb (C32.in_domain k) (C32.model_exactly_once k)",
    "n_quick": 200,
    "n_thorough": 6000,
    "shard": 40,
    "rule": "see harness/props/c32.go: real instance per case (catalog, WAL file, trigger dispatcher), 1-4 buckets over look-alike symbols, "
            "0-4 recording triggers registered through trigger.NewMatcher/StartNewTriggerPluginDispatcher, 1-4 writers x 0-3 WriteCSM calls; "
            "45% background mode (SyncWAL goroutine, one goroutine per writer), else a generated sequential interleaving; the flushed "
            "transaction groups are observed at the ReplicationSender and parsed with executor.ParseTGData; plus direct Matcher.Match "
            "probes; distinct = distinct input; non-trivial = patterns inside the model's alphabet, >=2 flushed records, >=1 delivered event",
    "trusted_base": [
        "Coq 8.16.1 kernel + vm_compute (no native_compute); axioms: none (Closed under the global context)",
        "Go's regexp engine is NOT modelled: Model/Dispatch.v gives the textbook language of the regexp that Matcher.Match builds, for ASCII "
        "patterns whose only metacharacters are '*' (-> [^/]+) and '.'; tied to the real Matcher.Match by direct probes on every run",
        "hand-written model coq/Model/Dispatch.v of AppendRecord/DispatchRecords/run/fire, FlushCommandsToWAL's AppendRecord loop and "
        "serializeTG's writesPerFile grouping; Go map iteration order and goroutine completion order are universally quantified; tied by "
        "in-Coq evaluation of every generated case against the Fire calls received by recording triggers from the real dispatcher",
        "LTS of the background mode (writers, WAL goroutine, dispatcher, fire goroutines; FIFO channels; tpd.m touched by the WAL goroutine only) "
        "is hand-written from executor/wal.go SyncWAL/FlushToWAL and written.go; its schedules are exercised, not enumerated, by the harness",
        "add-only hook /repo/executor/verif_c32.go (wait for trigger goroutines, channel length, haveWALWriter), Go harness, Python driver lib/vk.py",
    ],
    "assumptions": [
        "flushed transactions = the serialized TGs handed to the ReplicationSender after the WAL sync (executor/wal.go:318-320)",
        "synchronous mode (no SyncWAL goroutine): since /repo fix 39160a5 RequestFlush serialises the flushes it runs in its callers' "
        "goroutines, so concurrent callers and triggers that write from Fire (contrib/ondiskagg) take turns; theorems C32_sync_* cover that "
        "mode on an LTS with atomic flushes; harness/cmd/c32nested replays the former finding on the real dispatcher in every run",
        "'pattern matches the bucket' is Matcher.Match as implemented: unanchored, unescaped regexp search (observation, see notes/C32.md)",
        "delivery is asserted at quiescence; WALFileType.Shutdown does not wait for the fire goroutines of the last messages (observation)",
    ],
    "level": "proof",
    "level_text": "Coq theorems C32_exactly_once/C32_multiplicity: for EVERY trigger list, EVERY write history grouped in ANY way into flushed "
                  "transaction groups, EVERY Go map iteration order and EVERY completion order of the fire goroutines, the multiset of (trigger, key, "
                  "index, payload) delivered equals {written in a flushed TG and Match}; C32_schedules/C32_never_too_much/C32_progress/"
                  "C32_terminates: the same for EVERY interleaving of the background-mode LTS with any number of concurrent writers, with deadlock "
                  "freedom and termination; C32_match_spec: the matcher decides the regexp language. The model is tied to the code by in-Coq "
                  "evaluation of every generated case against the real dispatcher with recording triggers.",
    "level_note": "No axioms. The schedule quantifier is proved on a hand-written LTS of the goroutines, not on Go's runtime; real schedules are only "
                  "exercised (several goroutines per case). Synchronous mode with concurrent callers is excluded (data race on tpd.m). Go's regexp "
                  "is trusted to implement the language of [^/]+ / '.' / literals. Modelled not verified: written.go, wal.go:264-340, trigger.go:176.",
    "design_ref": "§6 C32",
    "post": post,
}
