"""Shared pieces of the durability group's checks (C01 C02 C03 C04 C05 C34 C35).

All of them run harness/bin/crashrun (REAL marketstore code in child processes under strace, crash images,
REAL recovery) and evaluate coq/Corr/Durab.v inside Coq on the recorded cases:
  agrees      = trace validation (model's system-call sequence == recorded one) AND recovery differential
                (real exit class + rows == model's recover on every explored crash prefix)
  in_domain   = the hypotheses of the guarded theorems hold of the case
  <prop>_prop = the theorem's conclusion evaluated on the model at every explored crash prefix
"""
import json

TRUSTED = [
    "Coq 8.16.1 kernel + vm_compute (no native_compute); axioms: none (Closed under the global context)",
    "section variable clen (stored length of a compressed block): theorems hold for EVERY positive clen; the "
    "correspondence instantiates it with the lengths the real snappy encoder produced",
    "model granularity: one event per file-mutating system call with a STRUCTURED payload (WAL record, fixed "
    "slot, variable block, index triple); the bytes are decoded by the harness with the real code "
    "(executor.ParseTGData, crypto/md5, snappy.Decode).  The byte-level TG codec is C28's model.",
    "snappy assumption of the model: reading a block with a length other than its stored length does not decode",
    "translator gen/: message/destination/status enums, WAL status enums, walStatusLenBytes, safetyFactor, "
    "TG header field sizes, Headersize regenerated from /repo (Generated/Src_durab.v)",
    "strace (-f --seccomp-bpf -xx) output parsing in harness/internal/crash/strace.go; fd offsets tracked "
    "through openat/lseek/read/write",
    "Go harness (crashrun), Python driver lib/vk.py",
]

ASSUME = [
    "process-crash model: the crash image is the result of the first k file-mutating system calls (all of them, "
    "in strace order) applied to an empty root; nothing about page-cache loss (that is C04)",
    "a run starts from an empty root directory and is recovered by ONE restart (instance ids 1111 -> 2222); "
    "crashes during recovery are C34's",
    "time arithmetic (slot index/offset, interval ticks) is done by the real exported functions in the harness "
    "and enters the model as data (C10/C30's subject)",
    "flushes with >= batchThreshold (100) fixed writes to one file go through executor/buffile and are not generated",
]


def expand_classes(ctx, rows, info, broken):
    """One jsonl row per history carries every failing crash prefix in `fails`; make each distinct class
    visible to the classifier (extra rows are appended AFTER the real cases, indices stay aligned)."""
    extra = []
    nprefix = 0
    nfail = {}
    for r in list(rows):
        nprefix += r.get("prefixes", 0)
        seen = set([r.get("class") or ""]) if not r.get("holds", True) else set()
        for f in r.get("fails") or []:
            c = f.get("class") or ""
            nfail[c] = nfail.get(c, 0) + 1
            if c in seen:
                continue
            seen.add(c)
            e = dict(r)
            e.update({"holds": False, "class": c, "detail": f.get("detail"), "tags": [], "nontrivial": False,
                      "source": r.get("source") + " (k=%s)" % f.get("k"), "fails": None})
            extra.append(e)
        if r.get("err"):
            broken.append(("correspondence", "harness: " + str(r.get("source")), str(r.get("err"))[:2000]))
    rows.extend(extra)
    info.setdefault("extra_coverage", {}).update({
        "crash_prefixes_explored": nprefix,
        "oracle_failures_by_class_over_prefixes": nfail,
    })


def spec(pid, theorems, prop_fn, n_quick, n_thorough, level_text, level_note, design_ref, rule, extra_assume=()):
    return {
        "id": pid,
        "binary": "crashrun",
        "coq_props": ["Properties/%s.v" % pid, "Corr/Durab.v"],
        "module": "MS.Properties.%s" % pid,
        "theorems": theorems,
        "corr_require": "Require Import MS.Model.Wal MS.Model.Replay MS.Corr.Durab MS.Base.Hex.\nFrom Coq.Strings Require Import Byte.",
        "agrees": "Durab.agrees",
        "in_domain": "Durab.in_domain",
        "model_prop": "fun k => implb (Durab.in_domain k) (%s k)" % prop_fn,
        "n_quick": n_quick,
        "n_thorough": n_thorough,
        "shard": 1,
        "search_streams": 2,
        "rule": rule,
        "trusted_base": TRUSTED,
        "assumptions": ASSUME + list(extra_assume),
        "level": "proof",
        "level_text": level_text,
        "level_note": level_note,
        "design_ref": design_ref,
        "engine": "coq+crashrun",
        "technique": "Coq theorem on executable model (induction over every schedule and every system-call prefix) + "
                     "trace validation of strace-recorded runs + recovery differential on materialised crash images",
        "post": expand_classes,
    }


RULE = ("harness/internal/crash/hist.go: 1-3 buckets (fixed 1Min/1H/4H/1D, variable 1Min/1H/4H), 2-6 steps (12 thorough), "
        "1-5 rows per bucket and request drawn from 12 instants over two years so that fixed slots and variable intervals "
        "repeat (continuation writes), multi-bucket requests, optional checkpoints/rotations; class daily-jan1 and "
        "requests unsorted across years (the fixed class cross-year-unsorted) generated on purpose in a quarter of the histories.  One case = one history; EVERY crash "
        "prefix of its system-call trace is explored (a stratified sample of <=100 per history in quick: every boundary next to a WAL record, primary write, index/data half or checkpoint first; all of them in thorough).  distinct = distinct history; "
        "non-trivial = more than 20 recorded system calls.")


def _build_crashrun_only():
    """Fallback when `go build ./cmd/...` fails because of ANOTHER property's harness file: the durability
    checks only need cmd/crashrun (which links internal/crash and the marketstore packages, not props/)."""
    import os
    import shutil
    import sys
    sys.path.insert(0, os.path.join(os.path.dirname(os.path.dirname(os.path.abspath(__file__))), "lib"))
    import vk
    with vk.Lock(os.path.join(vk.HARNESS, ".lock")):
        os.makedirs(os.path.join(vk.HARNESS, "bin"), exist_ok=True)
        cmd = ["go", "build", "-tags", "verif", "-o", "bin/", "./cmd/crashrun"]
        if os.path.realpath(vk.REPO) != "/repo":
            alt = os.path.join(vk.HARNESS, "alt.mod")
            gm = os.path.join(vk.HARNESS, "go.mod")
            open(alt, "w").write(open(gm).read().replace("=> /repo", "=> " + os.path.realpath(vk.REPO)))
            shutil.copyfile(os.path.join(vk.REPO, "go.sum"), os.path.join(vk.HARNESS, "alt.sum"))
            cmd = ["go", "build", "-modfile", alt, "-tags", "verif", "-o", "bin/", "./cmd/crashrun"]
        rc, out, _ = vk.sh(cmd, cwd=vk.HARNESS, env=vk.goenv(), timeout=1500)
        return rc == 0, out


def run_check(spec_, ctx, replay):
    """vk.standard_check with a harness build that does not depend on the other properties' harness files."""
    import os
    import sys
    sys.path.insert(0, os.path.join(os.path.dirname(os.path.dirname(os.path.abspath(__file__))), "lib"))
    import vk
    orig = vk.build_harness

    def build(extra_tags=""):
        ok, log = orig(extra_tags)
        if ok:
            return ok, log
        ok2, log2 = _build_crashrun_only()
        if ok2:
            ctx.notes.append("go build ./cmd/... failed in another property's harness file; built cmd/crashrun alone")
            return True, log2
        return False, log + "\n" + log2

    vk.build_harness = build
    try:
        return vk.standard_check(spec_, ctx, replay)
    finally:
        vk.build_harness = orig
