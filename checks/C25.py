SPEC = {
    "id": "C25",
    "coq_props": ["Properties/C25.v", "Corr/C25.v"],
    "module": "MS.Properties.C25",
    "theorems": ["C25_guarded", "C25_fixed_converges", "C25_retick_reencodes", "C25_variable_close_partial", "C25_gt_is_enc"],
    "corr_require": "Require Import MS.Corr.C25.",
    "agrees": "C25.agrees",
    "in_domain": "C25.in_domain",
    "model_prop": "fun k => implb (C25.in_domain k) (C25.model_converges k)",
    "n_quick": 110,
    "n_thorough": 3000,
    "shard": 8,
    "rule": "see harness/props/c25.go: 1-3 buckets (fixed or variable, 8 timeframes 1Sec..1D), 1-4 transaction groups of 1-3 writes x 1-3 rows "
            "(same second / same interval / later intervals, year edges, nanoseconds 0 / 999999999 / small / random); each TG is one flush on a real "
            "master instance whose WAL hands it to a recording ReplicationSender; the recorded stream is replayed on a real replica instance by "
            "replication.Receiver.Run -> ReplayerImpl.Replay; both instances are then queried in full per bucket; distinct = distinct input; "
            "non-trivial = inside the theorem's guard (well-formed write sets, mixed TGs included) with >= 2 write sets",
    "trusted_base": [
        "Coq 8.16.1 kernel + vm_compute (no native_compute); C25_guarded, C25_fixed_converges, C25_retick_reencodes: no axioms "
        "(the non-vacuity example evaluates C10's Flocq model of the tick codec); C25_variable_close_partial is a corollary of builder-B's "
        "C10 round-trip bound (Proofs/Ticks_decoder.v): Coq.Reals axioms, Classical_Prop.classic and the primitive-integer/float axioms of "
        "the Interval tactic enter through it",
        "builder C30's UTC time-index theorems (Proofs/TimeIndex_facts.v: index_bracket_utc, year_of_utc_iff, year_start_utc) are imported and re-checked",
        "hand-written model coq/Model/Repl.v at the level of PARSED write sets: Replay, wtSetToCS, serializeVariableRecords, the replica's "
        "WriteCSM/WriteRecords for a one-bucket csm, an abstract primary store (slot -> bytes; VARIABLE slots stably sorted by ticks), full-range query; "
        "the byte codec of the TG is builder E1's (TGCodec_facts.parse_serialize_roundtrip), NewTimeBucketKeyFromWalKeyPath and the column<->row "
        "conversions are not modelled; tied by in-Coq evaluation of every generated case (master rows, replica outcome, replica rows) against two "
        "real instances",
        "the tick codec (GetIntervalTicks32Bit / GetTimeFromTicks) is a parameter of the model: the theorems hold for all functions; the correspondence "
        "instantiates it with C10's PrimFloat mirror (Model/TicksPF.v; FloatAxioms), the non-vacuity example with C10's Flocq model (Model/Ticks.v)",
        "Go harness (fake gRPC client feeding the real Receiver loop; the recording sender keeps the transmitted slices and the replica "
        "reads them only after the master has committed the whole history = a full replication backlog), Python driver lib/vk.py",
    ],
    "assumptions": [
        "zone UTC (utils.InstanceConfig.Timezone = UTC); timeframes of whole seconds that tile the day, 1D included (guard tf_okb)",
        "VARIABLE buckets: the theorem gives the replica's store exactly: every record's ticks re-encoded from the time they decode to. That "
        "decode(encode(decode(ticks))) stays within one resolution step is proved per record under C10's side condition dec_nowrapb "
        "(C25_variable_close_partial); the store-level statement is NOT proved "
        "(Definition C25_variable_close; it is C10's open float bound); it is checked on the model and on the real code for every generated case",
        "transaction groups with several write sets are produced by Writer.WriteRecords per write + one RequestFlush (the steps of WriteCSM without "
        "its per-call flush), so that the order of the sets is chosen by the generator; single-write groups also go through the real WriteCSM",
    ],
    "level": "proof",
    "level_text": "Coq theorem C25_guarded: for EVERY tick codec, EVERY common initial store and EVERY history of well-formed transaction "
                  "groups (any number, any grouping, FIXED and VARIABLE sets mixed freely, every timeframe of whole seconds tiling the day), the "
                  "replica replays everything and its store is exactly the master's with every VARIABLE record's ticks re-encoded from the time "
                  "they decode to; C25_fixed_converges: for FIXED buckets the stores are equal, so every query agrees. F21a and F21b are fixed in "
                  "/repo (former witnesses are regression cases), and so is the decoder's second rounding (C10 F1, 551fdb4) that showed "
                  "through replication: no finding class is left; every corpus witness is replayed on two real instances in every run.",
    "level_note": "Partial: convergence of VARIABLE timestamps within the resolution is stated, not proved "
                  "(C25_variable_close). Modelled not verified: replication/replay.go, receiver.go:40-62, executor/writer.go WriteCSM/WriteRecords "
                  "(one-bucket path), writer.go:162-235 (append + stable sort by ticks). The model starts from parsed write sets.",
    "design_ref": "§6 C25, §8 F21",
}
