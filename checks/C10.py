import concurrent.futures
import os
import sys

sys.path.insert(0, os.path.join(os.path.dirname(os.path.dirname(os.path.abspath(__file__))), "lib"))
import vk  # noqa: E402

BLOCK = 100000


def sweep_post(ctx, rows, info, broken):
    """Thorough tier: extend the 1-second reflection sweep (Proofs/Ticks_sweep*.v cover 8 blocks) by N more blocks of
    10^5 consecutive offsets spread evenly over [0, 10^9); each block is one coqc run of `sweep_ok ... = true` by vm_compute."""
    if ctx.tier != "thorough" or info.get("replay"):
        return
    n = int(os.environ.get("VERIF_C10_BLOCKS", "320"))
    starts = sorted(set(min(i * (10 ** 9 // n), 10 ** 9 - BLOCK) for i in range(n)))
    os.makedirs(os.path.join(vk.COQ, "Cases"), exist_ok=True)

    def one(lo):
        name = "C10_sweep_%d_%d" % (os.getpid(), lo)
        path = os.path.join(vk.COQ, "Cases", name + ".v")
        with open(path, "w") as f:
            f.write("From Coq Require Import ZArith.\nRequire Import MS.Proofs.Ticks_sweep.\n"
                    "Goal sweep_ok (Z.to_nat %d) %d = true.\nProof. vm_compute. reflexivity. Qed.\n" % (BLOCK, lo))
        rc, out, _ = vk.sh(["coqc", "-Q", ".", "MS", "Cases/%s.v" % name], cwd=vk.COQ, timeout=1500)
        for ext in (".v", ".vo", ".vok", ".vos", ".glob"):
            try:
                os.remove(os.path.join(vk.COQ, "Cases", name + ext))
            except OSError:
                pass
        try:
            os.remove(os.path.join(vk.COQ, "Cases", "." + name + ".aux"))
        except OSError:
            pass
        return lo, rc, out

    ok_blocks, bad = 0, []
    with concurrent.futures.ThreadPoolExecutor(max_workers=vk.NPROC) as ex:
        for lo, rc, out in ex.map(one, starts):
            if rc == 0:
                ok_blocks += 1
            else:
                bad.append(lo)
                broken.append(("proof", "C10 1-second sweep block [%d, %d)" % (lo, lo + BLOCK), out[-1500:]))
    info.setdefault("extra_coverage", {})["sweep_1sec"] = {
        "blocks_in_theorem": 8, "extra_blocks_ok": ok_blocks, "extra_blocks_failed": bad, "block_size": BLOCK,
        "offsets_swept": (8 + ok_blocks) * BLOCK, "of": 10 ** 9,
    }


SPEC = {
    "id": "C10",
    "coq_props": ["Properties/C10.v", "Corr/C10.v"],
    "module": "MS.Properties.C10",
    "theorems": ["C10_roundtrip", "C10_dec_nowrap", "C10_mono", "C10_mono_raw", "C10_1sec_blocks", "C10_models_equal", "C10_1sec_blocks_flocq", "C10_whole_seconds", "C10_enc_accuracy_partial", "C10_enc_position_partial", "C10_dec_fs_accuracy_partial", "C10_dec_total_partial", "C10_roundtrip_partial"],
    "corr_require": "Require Import MS.Corr.C10.",
    "agrees": "C10.agrees",
    "in_domain": "C10.in_domain",
    "model_prop": "fun k => implb (C10.in_domain k) (C10.model_prop k)",
    "n_quick": 480,
    "n_thorough": 200000,
    "shard": 31,
    "post": sweep_post,
    "rule": "see harness/props/c10.go: intervalsPerDay of every utils.Timeframes entry (1Sec >= 30%); offsets at interval start/end, whole seconds +-20 ns, "
            "exact tick positions +-20 ns, .5/.99999999x fractions, uniform; second offset for the order test; arbitrary uint32 tick counts decoded; "
            "distinct = distinct input; non-trivial = inside the guard with offset > 0",
    "trusted_base": [
        "Coq 8.16.1 kernel + vm_compute (no native_compute)",
        "axioms (Print Assumptions): C10_mono / C10_mono_raw / C10_refuted* go through Flocq's real-number specification: Coq.Reals axioms "
        "(ClassicalDedekindReals.sig_forall_dec, sig_not_dec, functional_extensionality_dep) and Classical_Prop.classic; C10_1sec_blocks uses "
        "Coq's primitive floats and 63-bit integers (PrimFloat.*, PrimInt63.* primitives; their VM evaluation follows the host CPU's IEEE-754)",
        "translator gen/: the float constants ticksPerIntervalDivSecsPerDay (both copies), nanosecond, round are regenerated "
        "from utils/io and executor as exact binary64 (mantissa, exponent) on every run (gen/conf.d/ticks.json)",
        "hand-written models coq/Model/Ticks.v (Flocq inductive binary64) and coq/Model/TicksPF.v (primitive-float mirror); BOTH are compared "
        "bit-exactly (ticks, sec, nanosec) with GetIntervalTicks32Bit / GetTimeFromTicks on every generated case; their equality is PROVED "
        "(C10_models_equal, Proofs/Ticks_equiv.v) from Flocq's IEEE754.PrimFloat lemmas mul_equiv/add_equiv/sub_equiv/div_equiv/leb_equiv/"
        "of_int63_equiv/Prim2B_B2Prim, which rest on Coq.Floats.FloatAxioms (mul_spec, add_spec, sub_spec, div_spec, leb_spec, of_uint63_spec, "
        "Prim2SF_valid, SF2Prim_Prim2SF, Prim2SF_SF2Prim ...)",
        "Go harness, Python driver lib/vk.py",
    ],
    "assumptions": [
        "amd64 semantics of uint32(float64) / uint64(float64) = truncation (in range by C10_mono: ticks <= 2^32-1)",
        "the encoder is modelled as a function of the offset ts.Sub(baseTime); baseTime = IndexToTimeDepr is modelled and tied separately",
        "1-second exactness is proved on a stated finite domain (8 blocks of 10^5 offsets, unguarded since the F1 fix; thorough tier sweeps more "
        "blocks), not on all 10^9 offsets",
        "the precision bound for all timeframes and all offsets (C10_full) is PROVED (C10_roundtrip); it is also evaluated on every generated case",
        "F1 (GetTimeFromTicks rounding the seconds up) is FIXED in /repo (commit 551fdb4); the model follows the fixed code",
    ],
    "level": "proof",
    "level_text": "Coq theorems: C10_roundtrip = C10_full (for EVERY on-disk timeframe and EVERY offset: decoded time in the interval, <= original, "
                  "within ceil(interval/2^32) ns, exact for 1Sec; analytic proof on the Flocq binary64 model of the post-fix code, no finite domain, no "
                  "side condition), C10_mono (order preserved, ticks fit uint32), C10_dec_nowrap (the decoder's subseconds>=1e9 branch is dead), "
                  "C10_models_equal (primitive-float mirror = Flocq model), plus the reflection theorems C10_1sec_blocks(_flocq), C10_whole_seconds and the "
                  "accuracy lemmas. Bit-exact differential tie of both models on every run. The former defect F1 is fixed in the repository.",
    "level_note": "Axioms: Coq.Reals + classic (through Flocq), primitive float/int declarations. Trusted: Coq kernel/VM incl. primitive floats, gen "
                  "translator, harness. Modelled not verified: timeindex.go GetIntervalTicks32Bit/IndexToTimeDepr, rewritebuffer.go GetTimeFromTicks.",
    "design_ref": "§6 C10",
}


def run(ctx, replay):
    return vk.standard_check(SPEC, ctx, replay)
