from checks import durab_common as dc

SPEC = dc.spec(
    "C02", ["C02_guarded", "C02_exact", "C02_refuted", "C02_witness_multiplicity"], "Durab.c02_prop", 4, 24,
    level_text="Coq theorem C02_guarded (+C02_exact): for EVERY schedule, block-length function and crash prefix outside a "
               "continuation-write window, after recovery every fixed slot holds EXACTLY the last committed value (none if never "
               "written: no phantoms; the in-flight transaction is all-or-nothing, decided by its checksum record), and every variable "
               "interval holds exactly the committed records whenever no variable-length command had to be replayed.  C02_refuted: "
               "otherwise replay re-appends (two acknowledged records become four); the model predicts the exact multiplicity and the "
               "correspondence compares it with the real code at every crash prefix.",
    level_note="No axioms.  Section variable: clen (positive).  Modelled not verified: see C03.",
    design_ref="§6 C02", rule=dc.RULE)


def run(ctx, replay):
    return dc.run_check(SPEC, ctx, replay)
