SPEC = {
    "id": "C09",
    "coq_props": ["Properties/C09.v", "Corr/C09.v"],
    "module": "MS.Properties.C09",
    "theorems": ["C09_guarded", "C09_guarded_any_codec", "C09_writer", "C09_store", "C09_read_all",
                 "C09_refuted_F2"],
    "corr_require": "Require Import MS.Corr.C09.",
    "agrees": "C09.agrees",
    "in_domain": "C09.in_domain",
    "model_prop": "fun k => implb (C09.in_domain k) (C09.model_prop k)",
    "n_quick": 220,
    "n_thorough": 6000,
    "shard": 5,
    "rule": "see harness/props/c09.go: write histories for one variable-length bucket on a real temp instance (11 timeframes, 1-3 years, "
            "1-4 WriteCSM requests of 1-8 rows, many records per interval, edges, whole seconds + few ns, last ns of a second, sorted / "
            "shuffled / cross-year input, 14% wide repetitive payloads), the raw final file state and the query over all time; "
            "distinct = distinct input JSON; non-trivial = inside the guard with >= 2 rows",
    "trusted_base": [
        "Coq 8.16.1 kernel + vm_compute (no native_compute)",
        "axioms: C09_guarded_any_codec, C09_writer, C09_store, C09_read_all are closed under the global context; C09_guarded and the "
        "refutations instantiate the tick codec with Model/Ticks.v, whose Flocq definitions rest on the Coq.Reals axioms "
        "(ClassicalDedekindReals.sig_forall_dec, sig_not_dec, functional_extensionality_dep, Classical_Prop.classic); the in-Coq case "
        "evaluation uses the primitive-float mirror Model/TicksPF.v (FloatAxioms / Uint63 primitives, trusted to follow IEEE-754)",
        "snappy: a block's content is its record list (assumption decomp (comp x) = x, discharged nowhere); compressed lengths reach the "
        "model as recorded data (harness reads the stored triples)",
        "translator gen/ (gen/conf.d/query.json: constants, utils.Timeframes, IndexToOffset, FileSize)",
        "hand-written models coq/Model/VarStore.v (WriteRecords, WriteBufferToFileIndirect, RewriteBuffer), RangeRead.v/Trim.v/QTime.v "
        "(reader), builder B's Model/Ticks.v + TicksPF.v (tick codec); tied by in-Coq evaluation of every generated case against the real "
        "code: final file state record for record and tick for tick, query result byte for byte / panic for panic",
        "harness file-state extraction (harness/internal/stq), Go harness, Python driver lib/vk.py",
    ],
    "assumptions": [
        "instance timezone UTC; one bucket; variable compression enabled (default); all writes succeed; no crash (C02/C05), no concurrency (C18)",
        "'query over all time' = the query API's default bounds time.Unix(0,0)..time.Unix(MaxInt64,0) through QueryService.ExecuteQuery; rows dated 1970..9999",
        "sort.Stable is modelled by stable insertion sort (any stable sort by the same key gives the same list)",
        "the bound 'not later than written, at most one resolution step earlier' is C10's reading (ceil(tf/2^32) ns); C10 proves it only "
        "partially, so it stays a hypothesis of the guard (evaluated per history with the concrete codec), no longer a finding class",
    ],
    "level": "proof",
    "level_text": "Coq theorem C09_guarded: for EVERY write history (any requests, any row order, many records per interval, any years) inside "
                  "the guard the query over all time returns a permutation of the written records (exactly once, payload bit-equal), in "
                  "non-decreasing time order; C09_writer/C09_store: for ALL histories and all tick codecs every slot stays stably sorted by "
                  "ticks and holds exactly the records written to it; one replayed refutation (F2 daily Jan-1); F4 (buffer panic, 247ada4), "
                  "F1 (second rounded up, 551fdb4), the 4H lookup (d275195) and F3 (cross-year merge, 49eddda) are fixed in /repo, their guards dropped. Model tied to the code by differential in-Coq evaluation on every run.",
    "level_note": "Axioms: Coq.Reals (through Flocq's definition of the tick codec) for the instantiated theorem only. Trusted: Coq kernel/VM, "
                  "gen translator, harness. Modelled not verified: writer.go WriteRecords/formatRecord/WriteBufferToFileIndirect, sort.go, "
                  "wal.go FlushCommandsToWAL order, readvariable.go, rewritebuffer.go, scanner.go, timeindex.go.",
    "design_ref": "§6 C09",
}
