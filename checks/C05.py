from checks import durab_common as dc

SPEC = dc.spec(
    "C05", ["C05_no_commit_lost", "C05_commit_order", "C05_only_intact"], "Durab.c05_prop", 4, 40,
    level_text="Coq theorems, for EVERY list over the arms of the WAL writer loop and the writers (enqueue, timer/requested/capacity "
               "flush, acknowledgement, checkpoint with or without rotation, shutdown) and EVERY crash prefix outside a continuation "
               "window: C05_no_commit_lost (recovery succeeds and every committed TG is visible), C05_commit_order (recovery is exactly "
               "the execution of the not-yet-checkpointed TGs, whose ids strictly ascend), C05_only_intact (for ARBITRARY log contents "
               "the scan keeps a TG only if its body is followed by a matching checksum record).  The schedule quantifier is unbounded "
               "(no bound on transactions or rotations).",
    level_note="No axioms.  The tie runs the real code in SYNCHRONOUS mode with CreateCheckpoint and the rotation branch "
               "(Truncate(0); WriteStatus) driven by the history, so that checkpoints and rotations interleave with requests and "
               "crashes at every system-call boundary; the recorded WAL message sequence must be the one the model generates from "
               "the schedule.  Real timer-driven interleavings (SyncWAL goroutine with concurrent writers) are NOT replayed against "
               "the model (see notes/C05.md): the loop's arms are covered by the theorem's schedule quantifier, the goroutine "
               "scheduling itself is C07/C18's subject.",
    design_ref="§6 C05",
    rule=dc.RULE + "  C05: every history has checkpoints (30% of the steps) and rotations (35% of the checkpoints), up to 9 steps.")
