from checks import durab_common as dc

SPEC = dc.spec(
    "C05", ["C05_no_commit_lost", "C05_commit_order", "C05_only_intact"], "Durab.c05_prop", 4, 24,
    level_text="Coq theorems, for EVERY list over the arms of the WAL writer loop and the writers (enqueue, timer/requested/capacity "
               "flush, acknowledgement, checkpoint with or without rotation, shutdown) and EVERY crash prefix outside a continuation "
               "window: C05_no_commit_lost (recovery succeeds and every committed TG is visible), C05_commit_order (recovery is exactly "
               "the execution of the not-yet-checkpointed TGs, whose ids strictly ascend), C05_only_intact (for ARBITRARY log contents "
               "the scan keeps a TG only if its body is followed by a matching checksum record).  The schedule quantifier is unbounded "
               "(no bound on transactions or rotations).",
    level_note="No axioms.  The tie runs the real code two ways: (a) SYNCHRONOUS mode with CreateCheckpoint and the rotation branch "
               "(Truncate(0); WriteStatus) as history steps; (b) the REAL writer goroutine SyncWAL(20ms, 30-70ms, rotate=2) with a "
               "writer issuing the requests: timer flushes, requested flushes, timer checkpoints and rotations interleave as the Go "
               "scheduler and the timers decide.  The schedule is read off the recorded WAL message sequence (TG id gaps = timer "
               "flushes on an empty queue) and the model must generate exactly the recorded system calls from it; every crash prefix "
               "is recovered by the real code and by the model.  In (b) buckets are created through the catalog before the loop "
               "starts and there is ONE writer: calls of concurrent goroutines interleaving inside one loop step are not described "
               "by the model's atomic steps (C07/C18's subject); acknowledgement markers are compared up to their position.",
    design_ref="§6 C05",
    rule=dc.RULE + "  C05: every history has checkpoints (30% of the steps) and rotations (35% of the checkpoints), up to 9 steps.")


def run(ctx, replay):
    return dc.run_check(SPEC, ctx, replay)
