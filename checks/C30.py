SPEC = {
    "id": "C30",
    "coq_props": ["Properties/C30.v", "Corr/C30.v"],
    "module": "MS.Properties.C30",
    "theorems": ["C30_intraday", "C30_daily", "C30_timeframes", "C30_utc_year", "C30_refuted", "C30_anyzone_refuted",
                 "C30_anyday_refuted"],
    "corr_require": "Require Import MS.Corr.C30.",
    "agrees": "C30.agrees",
    "in_domain": "C30.in_domain",
    "model_prop": "fun k => implb (C30.in_domain k) (C30.model_prop k)",
    "n_quick": 480,
    "n_thorough": 40000,
    "shard": 31,
    "rule": "see harness/props/c30.go: 18 zones x time.Local equal/UTC/other, all utils.Timeframes (1D a quarter) + ~6% unsupported durations, "
            "instants at year edges / leap days / zone transitions / local midnights +-{0,1ns,1s,1h,1d,tf}, years 1970-2261; "
            "distinct = distinct input; non-trivial = inside the guarded theorems' domain",
    "trusted_base": [
        "Coq 8.16.1 kernel + vm_compute (no native_compute); axioms: none (Closed under the global context)",
        "translator gen/: utils.Day, utils.Timeframes, io.Headersize, io.IndexToOffset and the arithmetic of io.FileSize are regenerated from "
        "utils/ and utils/io on every run (gen/conf.d/time.json)",
        "hand-written model coq/Model/TimeIndex.v of TimeToIndex/IndexToTime/TimeToOffset/EpochTo*/nanosecondsInYear and coq/Base/{Civil,Tz}.v of "
        "Go's time.Date/In/Year/YearDay/AddDate/Location.lookup, tied by in-Coq evaluation of every generated case against the real functions",
        "zone data: the offset table given to the model is dumped by the harness from the same *time.Location the code runs with "
        "(Time.ZoneBounds + bisection, window of +-3 years around the instant)",
        "Go harness, Python driver lib/vk.py",
    ],
    "assumptions": [
        "a timezone is an arbitrary transition table (initial offset + list of (UTC second, offset)); Go's time package is modelled, not verified",
        "Time.Sub saturation (+-292 years) is not modelled: never reached within one year",
        "the int16 year conversion of callers is the identity on the years considered (1970-2261); the theorems themselves need no year bound",
    ],
    "level": "proof",
    "level_text": "Coq theorems C30_intraday / C30_daily: for EVERY zone table, instant, tiling timeframe >= 1 s (all utils.Timeframes by C30_timeframes) "
                  "and int32 record size, under the boolean year/day regularity guards: t lies in [IndexToTime i, IndexToTime (i+1)), the conversions "
                  "round-trip, another instant of the year has the same slot iff it lies in the same interval, and the slot lies in the file's data "
                  "area; DST transitions inside the year need no hypothesis. C30_refuted (1D January 1st slot inside the header), "
                  "C30_anyzone_refuted (Europe/Moscow 2014, year longer than FileSize) and C30_anyday_refuted (DST change at local midnight) "
                  "exhibit the defects outside the guards. Model tied to the code by translation and differential in-Coq evaluation on every run.",
    "level_note": "No axioms. Trusted: Coq kernel/VM, gen translator, harness, the zone-table dump. Modelled not verified: utils/io/timeindex.go "
                  "TimeToIndex/IndexToTime/TimeToOffset/EpochToIndex/EpochToOffset, metadata.go nanosecondsInYear/FileSize, and the parts of Go's "
                  "time package they call.",
    "design_ref": "§6 C30",
}
