from checks import durab_common as dc

SPEC = dc.spec(
    "C03", ["C03_guarded", "C03_refuted", "C03_newfile_fatal"], "Durab.c03_prop", 5, 25,
    level_text="Coq theorem C03_guarded: for EVERY schedule of the server (requests with catalog calls, flushes from any arm of the "
               "WAL loop, checkpoints with/without rotation, shutdown), every positive block-length function and EVERY prefix of the "
               "file-mutating system calls, outside the two windows named by guard_crash, start-up on the crash image succeeds and the "
               "unrestricted query of every bucket succeeds.  C03_refuted / C03_newfile_fatal exhibit the two windows: a crash between "
               "the data and the index write of a continuation indirect write makes replay fail (start-up panics); a crash between the "
               "creation of a year file and its header write makes the first query of that bucket kill the server (log.Fatal).",
    level_note="No axioms.  Section variable: clen (positive).  Modelled not verified: executor/wal.go (NewWALFile, FlushToWAL, "
               "FlushCommandsToWAL, CreateCheckpoint, WriteStatus, rotation, shutdown branch), executor/writer.go "
               "(WriteRecords, WriteBufferToFile, WriteBufferToFileIndirect), executor/walreplay.go (Replay, replayTGData), "
               "executor/walclean.go (CleanupOldWALFiles), executor/wal.go (TakeOverWALFile, Delete), catalog year-file creation as "
               "three events; utils/io/metadata.go initFromFile's log.Fatal as outcome QFatal.  Power loss is C04.",
    design_ref="§6 C03", rule=dc.RULE)


def run(ctx, replay):
    return dc.run_check(SPEC, ctx, replay)
