SPEC = {
    "id": "C20",
    "coq_props": ["Properties/C20.v", "Corr/C20.v"],
    "module": "MS.Properties.C20",
    "theorems": ["C20_select", "C20_insert", "C20_insert_lookup", "C20_insert_rows", "C20_slot_on_grid", "C20_refuted_select",
                 "C20_refuted_limit_zero", "C20_refuted_alias_collision", "C20_refuted_alias_twice",
                 "C20_insert_reordered_list", "C20_nonvacuous"],
    "corr_require": "Require Import MS.Corr.C20.",
    "agrees": "C20.agrees",
    "in_domain": "C20.in_domain",
    "model_prop": "fun k => implb (C20.in_domain k) (C20.model_prop k)",
    "n_quick": 200,
    "n_thorough": 10000,
    "shard": 50,
    "rule": "see harness/props/c20.go: a source bucket as in C19 (1-3 value columns, 2-7 rows, no NaN); SELECT * or a list of 1-4 columns "
            "(35% aliased, a few collisions / duplicates / unknown names); 0-2 WHERE conjuncts; LIMIT absent / 0 / 1..rows+2 / 1000; 40% "
            "INSERT INTO an existing target of the same or a coarser timeframe (a few with an INSERT column list, some reordered); "
            "distinct = distinct input; non-trivial = inside the guards, >=1 result row and a select list, LIMIT or INSERT",
    "trusted_base": [
        "Coq 8.16.1 kernel + vm_compute (no native_compute)",
        "axioms: those of C19 (classical reals through Flocq), inherited because the WHERE part is C19's theorem materialize_spec; the "
        "projection / LIMIT / INSERT proofs themselves add none",
        "translator gen/ (conf.d/sql.json, io.json) as for C19",
        "hand-written model coq/Model/SqlSel.v of SelectRelation.Materialize (projection, aliases, LIMIT), ColumnSeries.Project / Rename / "
        "Remove / RestrictLength, InsertIntoStatement.Materialize and the slot map WriteCSM produces; tied by in-Coq evaluation of every "
        "generated case against the real pipeline's returned ColumnSeries and the target bucket read back after the INSERT",
        "Go harness (independent reference semantics for the oracle), Python driver lib/vk.py",
    ],
    "assumptions": [
        "everything C19 assumes (fixed-length buckets, UTC, timeframe dividing a day, the WHERE conjunction inside C19's guard)",
        "INSERT: the write is modelled as last-writer-wins insertion into a sorted slot map keyed by the Epoch truncated to the target's "
        "timeframe (the byte-level write path is C08/C09's subject); source and target column types match (coercion is C14's); the target "
        "bucket exists; LIMIT <= 10^6 (int32 arithmetic of the reader's byte limit is C12's)",
        "column names are ASCII and pairwise different case-insensitively",
    ],
    "level": "proof",
    "level_text": "Coq theorems C20_select (for EVERY store, guarded WHERE, collision-free select list and LIMIT 1..10^6 or absent: the "
                  "returned series shows exactly the named columns, renamed, in list order, over the first n filtered rows), C20_insert "
                  "(INSERT INTO leaves the target as the by-name last-writer-wins insertion of the relational result) and "
                  "C20_insert_lookup (sorted slot map; slot = last selected row truncated to the target's timeframe). The unguarded "
                  "SELECT statement is refuted (C20_refuted_select) with computed witnesses for two defect classes, each replayed on the "
                  "real code; a third class (INSERT column list in another order) was fixed in /repo (0d39b4d) and is now covered by C20_insert. Differential in-Coq evaluation against the real SQL pipeline on every run.",
    "level_note": "Axioms: inherited from C19 (classical reals via Flocq). Modelled not verified: selectrelation.go Materialize (projection/"
                  "LIMIT), utils/io/columnseries.go Project/Rename/Remove/RestrictLength, insertintostatement.go Materialize, the effect of "
                  "executor.WriteCSM on a fixed-length bucket. Not covered: functions in the select list, sub-queries, variable-length "
                  "targets, type coercion on INSERT, creation of a missing target bucket (the code returns an error).",
    "design_ref": "§6 C20",
}
