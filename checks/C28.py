SPEC = {
    "id": "C28",
    "coq_props": ["Properties/C28.v", "Corr/C28.v"],
    "module": "MS.Properties.C28",
    "theorems": ["C28_roundtrip", "C28_roundtrip_exported", "C28_decoder_total", "C28_buffer_fields", "C28_overcount_panics",
                 "C28_accepted_encodable", "C28_accepted_roundtrip", "C28_refuted"],
    "corr_require": "Require Import MS.Base.Hex MS.Corr.C28.",
    "agrees": "C28.agrees",
    "in_domain": "C28.in_domain",
    "model_prop": "fun k => implb (C28.in_domain k) (C28.model_roundtrip k)",
    "n_quick": 240,
    "n_thorough": 12000,
    "shard": 16,
    "rule": "see harness/props/c28.go: transaction groups of 0-4 (thorough 0-12) write commands with typical/odd/long/binary key paths, "
            "payloads 0-6000 bytes, extreme offsets/indexes/VarRecLen, 1-6 shapes; boundary classes name 254-513 bytes, 254-512 shapes, "
            "0 shapes, path around 2^15; ~8% commands produced by the REAL write path (WriteCSM, captured before the flush); ~14% malformed "
            "byte strings straight into ParseTGData; distinct = distinct input; non-trivial = inside the guard with >= 1 command",
    "trusted_base": [
        "Coq 8.16.1 kernel + vm_compute (no native_compute); axioms: none (Closed under the global context)",
        "translator gen/: the eight field-width constants of ParseTGData (Generated/Src_wal.v) are regenerated from executor/wal.go on every run; "
        "the serializer's widths are the Go conversion types in serializeTG and are hand-written in Model/TGCodec.v",
        "hand-written model coq/Model/TGCodec.v of serializeTG / ParseTGData / DSVToBytes / DSVFromBytes / dsFromBytes / toBytes / "
        "walKeyToFullPath (filepath.Join on Unix), tied by in-Coq evaluation of every generated case against the real functions "
        "(byte-exact serialization; decoded tgID, WTSets or panic) in harness/props/c28.go",
        "add-only shim /repo/executor/verif_e1.go (build tag verif): VerifSerializeTG, VerifCaptureWriteCommands",
        "Go harness, Python driver lib/vk.py",
    ],
    "assumptions": [
        "the decoder is modelled for a byte slice with cap = len, which is how walreplay.go readTGData allocates it (make([]byte, tgLen)); the harness copies into such a buffer",
        "the domain of the property as stated (acceptableb) takes key paths < 2^15 bytes (PATH_MAX is 4096), payloads < 2^31 bytes per command and VarRecLen in int32 as given: "
        "they follow from OS limits and from GetVariableRecordLength's int32 result, not from a check in the write path",
        "a transaction-group count for which make([]WTSet, n) would allocate gigabytes before the loop panics is modelled as that panic (allocation size, not memory exhaustion); such inputs are not executed",
        "filepath.Join is modelled for Unix separators (no volume names)",
    ],
    "level": "proof",
    "level_text": "Coq theorems: C28_roundtrip (for EVERY tgID, root and list of encodable write commands the checked decoder behind ParseTGData "
                  "returns the id and exactly the given record type, target file, offset, index, payload and schema per command; induction over the "
                  "command list with a cursor invariant) and C28_accepted_roundtrip: every write ACCEPTED by the write path (Go typing + "
                  "CheckStorable at bucket creation, fix d005c52: names <= 32 bytes) with at most 255 data shapes round-trips — the name half of "
                  "the statement as given is now a theorem. C28_decoder_total: the decoder (fix afc5bfc) never indexes out of range. "
                  "C28_refuted exhibits the remaining uint8 wrap (256+ data shapes; the header accepts 1024 elements), replayed on the real "
                  "code also through the real write path.",
    "level_note": "No axioms. Trusted: Coq kernel/VM, gen translator, harness. Modelled not verified: executor/wal.go serializeTG, ParseTGData, "
                  "walKeyToFullPath; utils/io/datashape.go toBytes, dsFromBytes, DSVToBytes, DSVFromBytes; utils/io Serialize/To<Int> for the "
                  "integer widths used; executor/wal/oib.go accessors.",
    "design_ref": "§6 C28",
}
