SPEC = {
    "id": "C22",
    "coq_props": ["Properties/C22.v", "Corr/C22.v"],
    "module": "MS.Properties.C22",
    "theorems": ["C22_compose", "C22_windows", "C22_pipeline", "C22_zone", "C22_utc", "C22_dividesb_sound", "C22_refuted_zone", "C22_refuted"],
    "corr_require": "Require Import MS.Corr.C22.",
    "agrees": "C22.agrees",
    "in_domain": "C22.in_domain",
    "model_prop": "fun k => implb (C22.in_domain k) (C22.model_prop k)",
    "n_quick": 480,
    "n_thorough": 12000,
    "shard": 61,
    "rule": "see harness/props/c22.go: ticks through TickCandler(fine) -> CandleCandler(coarse) and through TickCandler(coarse); 25 "
            "timeframe pairs over Sec/Min/H/D (20 dividing); 1-14 rows (1-100 thorough) over 1-4 coarse windows hitting fine and coarse "
            "window boundaries, IEEE-special prices, 25% nanoseconds, 70% distinct timestamps; distinct = distinct input; "
            "non-trivial = inside the theorem's guard with >= 3 rows and >= 2 fine candles",
    "trusted_base": [
        "Coq 8.16.1 kernel + vm_compute (no native_compute)",
        "Flocq 4.1.0 (IEEE754.BinarySingleNaN) as the meaning of Go's float32 comparisons; its operations carry validity proofs that "
        "depend on ClassicalDedekindReals.sig_forall_dec, ClassicalDedekindReals.sig_not_dec, "
        "FunctionalExtensionality.functional_extensionality_dep, Classical_Prop.classic, listed by Print Assumptions for C22_compose, "
        "C22_windows, C22_pipeline, C22_refuted, C22_refuted_zone; C22_zone, C22_utc and C22_dividesb_sound are closed under the global context",
        "translator gen/: agg_Day, agg_suffixDefs regenerated from utils/timeframe.go on every run",
        "hand-written model coq/Model/Candle.v (see C21), tied by bit-exact in-Coq evaluation of all three real candler runs of every "
        "generated case (harness/props/c22.go)",
        "Go harness, Python driver lib/vk.py",
    ],
    "assumptions": [
        "system timezone UTC or any zone at a fixed UTC offset (configured on the real candlers with time.FixedZone); zones with "
        "transitions are covered by C22_compose only through its hypotheses (nests ...); suffixes Sec, Min, H, D",
        "the fine candles reach the coarse candler as its output column series (Epoch in whole seconds, Open/High/Low/Close float32)",
        "high/low equality is Go's == (the sign of a zero may differ between the two routes); open/close are bit-identical",
    ],
    "level": "proof",
    "level_text": "Coq theorem C22_compose: for ALL row lists with distinct timestamps and NaN-free prices and ALL timeframe pairs whose "
                  "window lengths divide and whose grid origins agree modulo the fine length (C22_zone: nesting etc. PROVED for every fixed-offset zone, UTC included; stated as hypotheses for arbitrary zones), the coarse candle built from the fine candles has the same "
                  "open/close and numerically the same high/low as the coarse candle built from the rows; C22_windows: both routes yield "
                  "the same set of coarse windows; C22_pipeline: the executable pipeline (fine output fed to CandleCandler) computes "
                  "exactly the theorem's object. C22_refuted (NaN) and C22_refuted_zone (UTC+00:30, 1H -> 1D) exhibit the defects outside the guards. Model tied to the code by "
                  "in-Coq evaluation on every run.",
    "level_note": "Axioms: only the standard real-number/classical axioms inherited from Flocq's float operations. Trusted: Coq kernel/VM, "
                  "Flocq, gen translator, harness. Modelled not verified: contrib/candler/*.go, tickcandler, candlecandler, "
                  "utils/timeframe.go Truncate/IsWithin (sub-day, day).",
    "design_ref": "§6 C22",
}
