SPEC = {
    "id": "C06",
    "coq_props": ["Properties/C06.v", "Corr/C06.v"],
    "module": "MS.Properties.C06",
    "theorems": ["C06_no_panic", "C06_startup_no_panic", "C06_terminates", "C06_decoder_total",
                 "C06_applied_is_intact", "C06_startup_applied_is_intact", "C06_startup_cases", "C06_frames_good_prefix",
                 "C06_iii_guarded", "C06_iii_guarded_nil", "C06_iii_frames",
                 "C06_iii_refuted_spurious_checkpoint", "C06_iii_refuted_duplicate"],
    "corr_require": "Require Import MS.Base.Hex MS.Corr.C06.",
    "agrees": "C06.agrees",
    "in_domain": "C06.in_domain",
    "model_prop": "C06.model_prop",
    "n_quick": 110,
    "n_thorough": 6000,
    "shard": 8,
    "rule": "see harness/props/c06.go: valid WAL files written by the real writer (1-5 transaction groups into two 1D buckets, optional "
            "checkpoint), 1-3 structured mutations (truncate at record/field boundaries and random offsets, bit flip, zero fill, overwrite, "
            "inserted garbage / nine zeros / lone message ids, delete / duplicate / swap records, length-field edits incl. 0..8, -1, +-1, "
            "+-16, around 1000*size and 2^7..2^16, crafted intact TGs, inserted unchecksummed checkpoint records), ~6% raw garbage behind a "
            "status record; thorough: truncation at EVERY offset; distinct = distinct input; non-trivial = mutated file inside the guard "
            "with >= 1 transaction preceding the damage",
    "trusted_base": [
        "Coq 8.16.1 kernel + vm_compute (no native_compute); axioms: none (Closed under the global context)",
        "section variables made universally quantified in every theorem: md5 (arbitrary function; C06_iii_* and C06_frames_good_prefix "
        "assume only length (md5 x) = 16), the root directory, apply_ok (whether replayTGData returns nil)",
        "executable instantiation for running the model: coq/Base/Md5.v (RFC 1321 written out in Gallina; RFC test vectors proved by "
        "vm_compute; differential-tested against crypto/md5 on every checksummed record of every case) — the theorems do not depend on it",
        "translator gen/: message ids, destination/status/file-status/replay-state enums, tgLenBytes, tgIDBytes, checkSumBytes, safetyFactor, "
        "walStatusLenBytes regenerated from executor/ on every run (Generated/Src_wal.v); the [10]byte buffers of readTransactionInfo / "
        "ReadStatus are literals in the Go code and in the model",
        "hand-written model coq/Model/WalScan.v (+ Model/TGCodec.v for ParseTGData), tied by in-Coq evaluation of every generated file "
        "against the real TakeOverWALFile + Replay(false): exit class (nil / error / panic / not replayed) and applied transaction ids",
        "Go harness (in-process, recover() for panics), Python driver lib/vk.py",
    ],
    "assumptions": [
        "the effect of replayTGData on the primary files is NOT modelled here (C01-C05's model); its outcome is the parameter apply_ok, "
        "instantiated in the correspondence by: every WTSet targets an existing file, is FIXED and has a non-negative offset",
        "I/O errors other than EOF / short reads are not modelled; file sizes below 2^53 (1000*size does not wrap)",
        "tgLen = 7: io.ToInt64(tgSerialized[:7]) reads one byte past the allocation; modelled as 0 (only matters for a 7-byte body with a "
        "valid digest, whose ParseTGData panics anyway); the generator does not produce that case with a valid digest and non-zero neighbour",
        "'precedes the damage' = the record lies entirely inside the longest common prefix of the valid file and the mutant; a transaction "
        "the ORIGINAL file checkpoints needs no replay and is not required",
        "an allocation of up to 1000x the file size (make([]byte, tgLen)) is modelled as an allocation, not as memory exhaustion",
    ],
    "level": "proof",
    "level_text": "Coq theorems over EVERY byte string (after the three fix: commits in /repo): C06_no_panic / C06_startup_no_panic (replay "
                  "neither panics nor hangs: every make/slice/index outcome kept in the model is proved unreachable behind the new tests; "
                  "C06_decoder_total for the checked ParseTGData) and C06_applied_is_intact (checksum gate: an applied transaction is an intact "
                  "record of the file). Guarded: C06_iii_guarded / _nil / _frames (an intact committed transaction before the damage is applied, "
                  "for every well-formed prefix and EVERY tail that frames no checkpoint-commit >= it and no duplicate TGDATA key) with the "
                  "scanner-stays-in-step lemma C06_frames_good_prefix and C06_iii_refuted_* witnesses (spurious checkpoint, duplicate abort) "
                  "replayed on the real Replay; the former panic witnesses are regressions that must now pass.",
    "level_note": "No axioms. Trusted: Coq kernel/VM, gen translator, harness. Modelled not verified: executor/walreplay.go Replay (both passes), "
                  "readMessageID, readTGData, fullRead; executor/wal.go readTransactionInfo, sanityCheckValue, validateCheckSum, TakeOverWALFile, "
                  "NeedsReplay, ParseTGData; executor/wal/file.go Read, ReadStatus; walclean.go size test. replayTGData's file effects are a parameter.",
    "design_ref": "§6 C06",
}
