from checks import durab_common as dc

SPEC = dc.spec(
    "C01", ["C01_guarded", "C01_contents", "C01_acknowledged_are_committed", "C01_fixed_rows", "C01_refuted"],
    "Durab.c01_prop", 4, 24,
    level_text="Coq theorem C01_guarded (+C01_contents): for EVERY schedule of the server, every positive block-length function and EVERY "
               "prefix of the file-mutating system calls outside a continuation-write window, the restart succeeds and the recovered "
               "files hold, in every fixed slot, the value of the last committed command that wrote it, and in every variable interval "
               "every record of every committed command.  C01_acknowledged_are_committed: in synchronous mode a request whose "
               "acknowledgement precedes the crash is committed.  C01_refuted: the unguarded statement fails inside the "
               "continuation-write window.  Class daily-jan1 (index 0 is the reader's hole: C01_index0_hole) is found by the row-level oracle "
               "on the real code; the former class cross-year-unsorted (WriteRecords' prevYear) is fixed (/repo 49eddda) and its "
               "witness is a regression.",
    level_note="No axioms.  Section variable: clen (positive).  The theorems are at the level of write commands (what WriteRecords "
               "queues); the row->command step is modelled (write_records) and tied by trace validation, "
               "its row-level consequences are checked by the harness oracle on the implementation's own query results.  Modelled "
               "not verified: see C03.",
    design_ref="§6 C01", rule=dc.RULE)


def run(ctx, replay):
    return dc.run_check(SPEC, ctx, replay)
