SPEC = {
    "id": "C33",
    "coq_props": ["Properties/C33.v", "Corr/C33.v"],
    "module": "MS.Properties.C33",
    "theorems": ["C33_holds", "C33_guarded", "C33_no_crash", "C33_reports_read_error", "C33_complete"],
    "corr_require": "Require Import MS.Corr.C33.",
    "agrees": "C33.agrees",
    "in_domain": "C33.in_domain",
    "model_prop": "fun k => implb (C33.in_domain k) (C33.model_prop k)",
    "n_quick": 400,
    "n_thorough": 20000,
    "shard": 25,
    "rule": "see harness/props/c33.go: csv files over 1-5 columns of the 11 parsable fixed-width types (Epoch first, columns permuted, 30% an unused "
            "column), timeFormat timestamp, 0-10 data lines (0-60 thorough), 45% clean, otherwise per line 7% wrong field count, 4% bare quote, "
            "6% unparsable cell, 5% unparsable timestamp, chunk size 1..lines+2; distinct = distinct input; non-trivial = well-formed file with "
            ">=2 lines and more than one chunk",
    "trusted_base": [
        "Coq 8.16.1 kernel + vm_compute (no native_compute); axioms: none (Closed under the global context)",
        "encoding/csv is outside the model: the theorem quantifies over every event stream (record | error, then EOF); the harness records the "
        "stream the real csv.Reader yields for each file; strconv.ParseFloat is a universally quantified function in the theorems and a recorded "
        "table in the correspondence; ReadMetadata's column mapping is an input (the real ColumnIndex)",
        "translator gen/: element-type enum, typeMap (NewNumpyDataset's type check)",
        "hand-written model coq/Model/Csv.v of CSVtoNumpyMulti, convertCSVtoCSM, readTimeColumns/parseTime (format 'timestamp'), "
        "columnSeriesMapFromCSVData, strconv.ParseInt/ParseUint/ParseBool base 10, and the chunk loop of session.load, tied by in-Coq evaluation "
        "of every generated file against the real loader (harness/props/c33.go)",
        "the loop of cmd/connect/session/load.go:54-91 is replicated in the harness (chunk size as a parameter); it is inline in an unexported "
        "method that needs an API client",
        "Go harness, Python driver lib/vk.py",
    ],
    "assumptions": [
        "time layouts other than 'timestamp', Epoch-date/Epoch-time composition and STRING/STRING16 columns are outside the model and not generated",
        "Epoch is the first csv column (columnSeriesMapFromCSVData skips whatever bucket column is mapped to csv column 0; modelled, but the "
        "generator keeps Epoch there)",
        "loaded values are compared as little-endian bytes of the dataset columns, all chunks concatenated",
    ],
    "level": "proof",
    "level_text": "Coq theorem C33_holds (the property at full strength, on the code after the fixes 85c538e and 4016039): for EVERY event "
                  "stream (records and read errors anywhere), chunk size >= 1, column mapping and float parser, the import never crashes and a "
                  "successful import means no read error occurred and exactly the conversion of ALL records was loaded, independent of chunking; "
                  "C33_reports_read_error: any csv read error yields an error; C33_complete: a file whose every row converts is loaded for every "
                  "chunk size. The two former defect witnesses are regression cases (corpus/C33, Examples C33_regression_*).",
    "level_note": "No axioms. Trusted: Coq kernel/VM, gen translator, harness, encoding/csv and strconv.ParseFloat (real ones in the harness, "
                  "abstract in the theorems). Modelled not verified: cmd/connect/loader/utils.go CSVtoNumpyMulti/convertCSVtoCSM, read.go, time.go, "
                  "write.go, session/load.go loop.",
    "design_ref": "§6 C33",
}
