SPEC = {
    "id": "C31",
    "coq_props": ["Properties/C31.v", "Corr/C31.v"],
    "module": "MS.Properties.C31",
    "theorems": ["C31_parse_wf", "C31_window", "C31_window_abs", "C31_queryable", "C31_print_parse", "C31_refuted_day25h",
                 "C31_refuted_week_zone", "C31_refuted_zero_mult", "C31_print_refuted"],
    "corr_require": "Require Import MS.Corr.C31.",
    "agrees": "C31.agrees",
    "in_domain": "fun k => C31.in_domain k || C31.in_domain_print k",
    "model_prop": "fun k => implb (C31.in_domain k) (C31.model_prop k) && implb (C31.in_domain_print k) (C31.model_prop_print k)",
    "n_quick": 560,
    "n_thorough": 40000,
    "shard": 36,
    "rule": "see harness/props/c31.go: candle strings = multiplier (1-120 mostly; 0, leading zeros, int32/int64 limits) x every suffix with ~30% noise; "
            "timestamps in 13 zones at DST-transition days, Monday/Sunday edges, month/year edges, midnights, random; TimeframeFromString over all 8 "
            "unit names with signs/noise; TimeframeFromDuration over unit multiples / arbitrary / sub-second; distinct = distinct input; "
            "non-trivial = inside a guarded theorem's domain (window or print)",
    "trusted_base": [
        "Coq 8.16.1 kernel + vm_compute (no native_compute); axioms: none (Closed under the global context)",
        "translator gen/: utils.Day, timeframeDefs, Timeframes, suffixDefs are regenerated from utils/timeframe.go on every run (gen/conf.d/time.json)",
        "hand-written model coq/Model/Timeframe.v (incl. a hand scanner for the regexp (\\d+)(Sec|Min|H|D|W|M|Y), strconv.ParseInt/Atoi, "
        "strings.Contains/Split, fmt %v of an int, Time.Truncate, Time.ISOWeek) and coq/Base/{Civil,Tz}.v, tied by in-Coq evaluation of every "
        "generated case against the real functions",
        "zone data: offset table dumped by the harness from the same *time.Location the code runs with",
        "Go harness, Python driver lib/vk.py",
    ],
    "assumptions": [
        "ts and start carry the same *time.Location and no monotonic clock reading (IsWithin's default branch compares time.Time values with ==)",
        "strings are printable ASCII",
        "QueryableNrecords is not part of the property and is not modelled",
    ],
    "level": "proof",
    "level_text": "Coq theorems: C31_window (for EVERY zone table, timestamp and parsed candle duration inside window_okb: Truncate <= ts < Ceil and "
                  "IsWithin(ts, Truncate ts)), C31_window_abs (exact window [start, start+d) for the absolute suffixes in any zone), C31_queryable "
                  "(QueryableTimeframe names an on-disk timeframe dividing the duration), C31_print_parse (parse(print d) = d for every duration "
                  "that is an exact unit multiple; finite reflection). Four refutation witnesses exhibit the defect classes outside the guards "
                  "(25-hour day, week outside UTC, zero multiplier, non-unit print). Tied to the code by translation and differential in-Coq evaluation.",
    "level_note": "No axioms. Trusted: Coq kernel/VM, gen translator, harness, zone-table dump. Modelled not verified: utils/timeframe.go and the Go "
                  "library functions it calls (regexp, strconv, strings, fmt, time). All seven suffixes are covered by C31_window under their guards.",
    "design_ref": "§6 C31",
}
