SPEC = {
    "id": "C27",
    "coq_props": ["Properties/C27.v", "Corr/C27.v"],
    "module": "MS.Properties.C27",
    "theorems": ["C27_guarded", "C27_same_shapes_roundtrip", "C27_mixed_rejected", "C27_guarded_msgpack", "C27_names_rejected", "C27_refuted_key"],
    "corr_require": "Require Import MS.Corr.C27.",
    "agrees": "C27.agrees",
    "in_domain": "C27.in_domain",
    "model_prop": "fun k => implb (C27.in_domain k) (C27.model_roundtrip k)",
    "n_quick": 400,
    "shard": 32,
    "n_thorough": 20000,
    "rule": "see harness/props/c27.go: 0-4 buckets (0-5 thorough) over a base shape of 1-5 (1-6) columns of the 11 wire types, 1-5 rows (1-50 thorough; string16 columns kept rare in the quick tier), "
            "45% of the cases unperturbed; otherwise per bucket 12% zero rows, 9% type changed, 4% name changed, 3% column count changed, "
            "3% ragged, ~8% non-canonical key, 3% duplicate key, 3% bool column; distinct = distinct input; non-trivial = inside the "
            "theorem's domain, one shared shape, >=2 buckets and >=2 columns",
    "trusted_base": [
        "Coq 8.16.1 kernel + vm_compute (no native_compute); axioms: none (Closed under the global context)",
        "msgpack is outside the model: C27_guarded quantifies over every structure equal to the encoder's output up to the order of the "
        "two maps; C27_guarded_msgpack states the codec assumption explicitly; the harness runs the real vmihailenco/msgpack "
        "Marshal/Unmarshal of the RPC envelopes (MultiWriteRequest, MultiQueryResponse) on every case",
        "translator gen/: type_map (numpy.go typeMap), DefaultTimeBucketSchema, attr_size and the element-type enum are regenerated from utils/io on every run",
        "hand-written model coq/Model/Wire.v of NewNumpyDataset/NewNumpyMultiDataset/Append/ToColumnSeries/ToColumnSeriesMap, "
        "MultiQueryResponse.ToColumnSeriesMap, NewTimeBucketKeyFromString and the executeQuery fold, tied by in-Coq evaluation of every "
        "generated case against the real code (harness/props/c27.go); the fold is additionally run through the real DataService.Query loop",
        "Go harness, Python driver lib/vk.py",
    ],
    "assumptions": [
        "column values are compared as little-endian bit patterns (CastToByteSlice view)",
        "ColumnSeries.AddColumn's renaming of colliding names is not modelled: unreachable when decoded keys are pairwise distinct "
        "(the generator never produces distinct keys that collide after NewTimeBucketKeyFromString)",
        "Go slice expressions are modelled with len, not cap, as the bound (decoded msgpack byte slices have cap == len)",
    ],
    "level": "proof",
    "level_text": "Coq theorem C27_guarded (code after the fixes 721c515, 0e33ed2): for EVERY non-empty list of buckets with distinct canonical keys, "
                  "each a well-formed series over the wire types with ANY row count including zero and ANY mix of shapes, in every fold order and "
                  "for every order in which msgpack returns the two maps: the conversion is refused with an error (exactly when the shapes differ: "
                  "C27_mixed_rejected) or the dataset is built and both ToColumnSeriesMap decoders return exactly the input buckets (names, order, "
                  "types, bit patterns) (C27_same_shapes_roundtrip). C27_refuted_key exhibits the remaining defect class (keys with more than one "
                  "colon or without category change). Model tied by translation of the type table and differential in-Coq evaluation.",
    "level_note": "No axioms. Trusted: Coq kernel/VM, gen translator, harness, msgpack (real one in the harness, abstract in the theorem). "
                  "Modelled not verified: utils/io/numpy.go, keytypes.go NewTimeBucketKey(FromString), columnseries.go Len/AddColumnSeries, "
                  "frontend/query.go:69-89 and :231-251.",
    "design_ref": "§6 C27",
}
