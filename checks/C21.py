SPEC = {
    "id": "C21",
    "coq_props": ["Properties/C21.v", "Corr/C21.v"],
    "module": "MS.Properties.C21",
    "theorems": ["C21_run", "C21_partition", "C21_candle", "C21_order_independent", "C21_zone_idem", "C21_within_own_window",
                 "C21_window_length", "C21_window_refuted", "C21_refuted", "C21_order_refuted"],
    "corr_require": "Require Import MS.Corr.C21.",
    "agrees": "C21.agrees",
    "in_domain": "C21.in_domain",
    "model_prop": "fun k => implb (C21.in_domain k) (C21.model_prop k)",
    "n_quick": 480,
    "n_thorough": 12000,
    "shard": 61,
    "rule": "see harness/props/c21.go: tick or candle input, timeframe <mult><Sec|Min|H|D>, AggRunner.Run or New + 1-3 Accum calls, "
            "1-10 rows per call (1-80 thorough) over 1-4 windows with boundary timestamps, duplicates, 45% out of order, 30% with "
            "nanoseconds, pre-1970 dates, IEEE-special prices, averaged multi-column prices, 0-3 Sum/Avg columns, ~6% malformed; "
            "distinct = distinct input; non-trivial = inside the theorem's guard with >= 3 rows",
    "trusted_base": [
        "Coq 8.16.1 kernel + vm_compute (no native_compute)",
        "Flocq 4.1.0 (IEEE754.BinarySingleNaN) as the meaning of Go's float32/float64 arithmetic; its operations carry validity proofs "
        "that depend on the standard-library axioms ClassicalDedekindReals.sig_forall_dec, ClassicalDedekindReals.sig_not_dec, "
        "FunctionalExtensionality.functional_extensionality_dep, Classical_Prop.classic, which Print Assumptions therefore lists for "
        "the theorems mentioning float operations (C21_run, C21_partition, C21_candle, C21_order_independent, C21_refuted); "
        "C21_zone_idem, C21_within_own_window, C21_window_length and C21_window_refuted are closed under the global context",
        "translator gen/: agg_Day and agg_suffixDefs (utils.Day, utils.suffixDefs) are regenerated from utils/timeframe.go on every run",
        "hand-written model coq/Model/Candle.v of contrib/candler (GetCandle, NewCandle, AddCandle, Output, SerializeToRowData, "
        "GetAverageColumnFloat32), TickCandler.Accum, CandleCandler.Accum, ColumnSeries.GetTime, CandleDuration.Truncate/IsWithin for "
        "Sec/Min/H/D with the system timezone UTC; tied by in-Coq evaluation of every generated case (harness/props/c21.go)",
        "time.Time.Truncate / time.Date / time.Unix of the Go standard library are modelled (absolute time since 0001-01-01; calendar day "
        "in UTC = floor to 24 h since the Unix epoch), not verified; the timeframe literal is split into (mult, suffix) by the harness",
        "Go harness, Python driver lib/vk.py",
    ],
    "assumptions": [
        "system timezone: UTC or any zone at a fixed UTC offset (the harness configures utils.InstanceConfig.Timezone with time.FixedZone); "
        "zones with transitions (DST) enter the theorems only through the hypothesis idem; suffixes Sec, Min, H, D; W/M/Y candles are C31's",
        "floats cross the harness boundary as IEEE bit patterns, NaNs identified",
        "order independence is stated for open/close exactly and for high/low up to Go's == (the sign of a zero can depend on order)",
        "a '<n>D' timeframe with n > 1 still has one-day windows (Truncate ignores the multiplier): modelled as is; judged by the "
        "oracle with an alignment-free bound (finding multiday-window, C21_window_refuted)",
    ],
    "level": "proof",
    "level_text": "Coq theorems over Model/Candle.v for EVERY row list, every timeframe and every split into Accum calls: the output has "
                  "exactly one candle per window holding rows, strictly ordered by window start (C21_partition), each candle being the "
                  "AddCandle fold of its window's rows, which meets the OHLC specification (C21_candle: open/close = price at an "
                  "earliest/latest timestamp, high/low = extremes, count, float64 sums) and is permutation invariant for distinct "
                  "timestamps and NaN-free prices (C21_order_independent). C21_refuted / C21_order_refuted exhibit the zero-time sentinel and the NaN "
                  "order dependence outside the guards. Model tied to TickCandler/CandleCandler by bit-exact in-Coq evaluation on every run.",
    "level_note": "Axioms: only the standard real-number/classical axioms inherited from Flocq's float operations. Trusted: Coq kernel/VM, "
                  "Flocq, gen translator, harness. Modelled not verified: contrib/candler/*.go, utils/timeframe.go (Truncate/IsWithin, "
                  "sub-day and day), ColumnSeries.GetTime, uda.ColumnToFloat32.",
    "design_ref": "§6 C21",
}
