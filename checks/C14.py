SPEC = {
    "id": "C14",
    "coq_props": ["Properties/C14.v", "Corr/C14.v"],
    "module": "MS.Properties.C14",
    "theorems": ["C14_mismatch_rejected", "C14_failed_stores_nothing", "C14_rejected_first_changes_nothing", "C14a_refuted",
                 "C14_coerce_int_int", "C14_coerce_float_int", "C14_coerce_int_f32_guarded", "C14b_refuted", "C14_stored_by_name"],
    "corr_require": "Require Import MS.Corr.C14.",
    "agrees": "C14.agrees",
    "in_domain": "C14.in_domain",
    "model_prop": "C14.model_prop",
    "n_quick": 160,
    "n_thorough": 5000,
    "shard": 20,
    "rule": "see harness/props/c14.go: 3-6 write requests of 1-3 buckets on a fresh real instance (unchanged / retyped / renamed / missing / extra / "
            "reordered column sets, boundary-heavy values over all numeric element types, some bool/string16), always ending with an accepted request "
            "that forces the flush; plus 2-5 stand-alone CoerceColumnType calls over all type pairs; distinct = distinct input; non-trivial = inside "
            "the guards with >=1 value stored or converted through a real type change",
    "trusted_base": [
        "Coq 8.16.1 kernel + vm_compute (no native_compute); Flocq 4.1 (BinarySingleNaN); axioms: the Coq.Reals / classical axioms that Flocq's "
        "binary_normalize proofs rest on (ClassicalDedekindReals.sig_forall_dec, sig_not_dec, functional_extensionality_dep, Classical_Prop.classic) - "
        "they enter every theorem about the model because the float operations embed Flocq's correctness proofs",
        "translator gen/: element-type enum and attr_size regenerated from utils/io on every run",
        "hand-written model coq/Model/Coerce.v (AnySet algebra, GetMissingAndTypeCoercionColumns, CoerceColumnType incl. the amd64 float->integer "
        "instructions, WriteCSM's bucket loop with queue and flush) on top of Model/Rows.v (serialize, C29) and Base/F32.v, F64.v; tied by in-Coq "
        "evaluation of every case against the real WriteCSM / ExecuteQuery / CoerceColumnType for SOME iteration order of each request map",
        "Go harness (harness/props/c14.go, internal/catinst, internal/mk), add-only hook /repo/executor/verif_catinst.go (VerifQueuedWrites, small pipe), lib/vk.py",
    ],
    "assumptions": [
        "bucket content = the rows flushed to it (distinct time slots; last-writer-wins per slot is C08's); all rows of a case lie in one year",
        "Go map iteration order is not observable: the correspondence accepts any order that reproduces code, pipe length and every bucket's content",
        "float -> integer conversions outside the destination's range are implementation-defined in Go; the model follows amd64 (CVTTSD2SQ), the theorem excludes them",
        "for uint64 destinations the float theorem covers values below 2^63; NaN payloads are not compared",
    ],
    "level": "proof",
    "level_text": "Coq theorems: (a) C14_mismatch_rejected - a request naming a bucket whose column names do not match is not accepted for EVERY iteration order; "
                  "C14_failed_stores_nothing - a failed request stores nothing; C14_rejected_first_changes_nothing - if the failing bucket is iterated first nothing "
                  "stays queued and later requests store nothing on its behalf; C14a_refuted - otherwise the rows of buckets iterated earlier stay in the pipe and "
                  "reach the files with the next accepted request. (b) C14_coerce_int_int - all 9x9 integer type pairs, every value: coercion = Go's conversion; "
                  "C14_coerce_float_int - in-range float->integer = truncation; C14_coerce_int_f32_guarded - |v| < 2^53: coercion via float64 = direct float32(v) "
                  "(Flocq proof); C14b_refuted - 2^54+2^30+1 rounds twice. (c) C14_stored_by_name - a one-row request carrying the bucket's columns in any order is stored per column name "
                  "(since fix: commit in /repo; the former refutation is a regression case).",
    "level_note": "Axioms: Coq.Reals + classic via Flocq (listed). Trusted: Coq kernel/VM, Flocq, translator, harness. Modelled not verified: executor/writer.go WriteCSM "
                  "(schema part), utils/io/columnseries.go GetMissingAndTypeCoercionColumns, generics.go AnySet, coercecolumn.go. Also observed: coercing a bool or "
                  "string16 column to a numeric type panics inside reflect (not an error return).",
    "design_ref": "§6 C14",
}
