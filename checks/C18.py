import os
import re
import sys

sys.path.insert(0, os.path.join(os.path.dirname(os.path.dirname(os.path.abspath(__file__))), "lib"))
import vk  # noqa: E402

RACE_BIN = os.path.join(vk.HARNESS, "bin", "c18race_race")


def build_race_probe(timeout=2400):
    """go build -race of harness/cmd/c18race against REPO (several minutes when the cache is cold)."""
    with vk.Lock(os.path.join(vk.HARNESS, ".lock")):
        cmd = ["go", "build", "-race", "-tags", "verif", "-o", RACE_BIN, "./cmd/c18race"]
        if os.path.realpath(vk.REPO) != "/repo":
            alt = os.path.join(vk.HARNESS, "alt.mod")
            if os.path.exists(alt):
                cmd = ["go", "build", "-race", "-modfile", alt, "-tags", "verif", "-o", RACE_BIN, "./cmd/c18race"]
        rc, out, dt = vk.sh(cmd, cwd=vk.HARNESS, env=vk.goenv(), timeout=timeout)
        return rc == 0, out


def probe_fresh():
    if not os.path.exists(RACE_BIN) or os.path.realpath(vk.REPO) != "/repo":
        return False
    t = os.path.getmtime(RACE_BIN)
    srcs = [os.path.join(vk.REPO, "executor", f) for f in os.listdir(os.path.join(vk.REPO, "executor")) if f.endswith(".go")]
    srcs += [os.path.join(vk.HARNESS, "cmd", "c18race", "main.go"), os.path.join(vk.HARNESS, "internal", "schedx", "inst.go")]
    return all(os.path.getmtime(s) <= t for s in srcs if os.path.exists(s))


ACCESSORS = {"setHaveWALWriter", "getHaveWALWriter", "setShutdownPending", "isShutdownPending"}


def flag_accesses_outside_accessors():
    """Source tie for C18_race_free: the theorem's happens-before relation has a mutex edge between any two accesses
    to haveWALWriter / *shutdownPending because every access is inside walFlagsMu.  List the places in
    executor/*.go (verif_* shims excluded) that touch the flags outside the four accessor functions."""
    bad = []
    d = os.path.join(vk.REPO, "executor")
    for fn in sorted(os.listdir(d)):
        if not fn.endswith(".go") or fn.endswith("_test.go") or fn.startswith("verif_"):
            continue
        cur, in_var = None, False
        for n, line in enumerate(open(os.path.join(d, fn), errors="replace"), 1):
            code = line.split("//")[0]
            m = re.match(r"^func\s+(\([^)]*\)\s*)?(\w+)\s*\(", line)
            if m:
                cur = m.group(2)
            if re.match(r"^var\s*\(", line):
                in_var = True
            elif in_var and line.startswith(")"):
                in_var = False
            if not re.search(r"\bhaveWALWriter\b|\bshutdownPending\b", code):
                continue
            if cur in ACCESSORS and not in_var and not line.startswith("func") or (cur in ACCESSORS and line.startswith("func")):
                continue
            if in_var and re.search(r"haveWALWriter\s*=\s*false", code):
                continue
            if re.search(r"shutdownPending\s+\*bool|shutdownPending\s*:=\s*false|shutdownPending:\s*&shutdownPending", code):
                continue  # field declaration and NewWALFile's initialisation (before the value is shared)
            bad.append("%s:%d: %s" % (fn, n, line.strip()))
    return bad


def race_probe(ctx, rows, info, broken):
    outside = flag_accesses_outside_accessors()
    info.setdefault("extra_coverage", {})["flag_accesses_outside_accessors"] = outside
    if outside:
        broken.append(("translation", "C18_race_free: flag accessed outside walFlagsMu",
                       "the mutex edge of Model/WalLoopHB.v is not justified by the source: " + "; ".join(outside[:6])))
    """Search only: run the -race build of the real SyncWAL/WriteCSM/Shutdown and look for reports whose
    stacks are both inside /repo.  A hit becomes an oracle failure of class unsynchronised-flush-flags, which
    is no longer a listed finding since the fix of F18: it is reported as a VIOLATION.  No binary / no hit -> a note."""
    if info.get("replay"):
        return
    want = ctx.tier == "thorough" or os.environ.get("VERIF_RACE") == "1"
    if not probe_fresh():
        if not want:
            ctx.notes.append("race probe skipped: bin/c18race_race not built for this tree (./check --setup or --tier thorough builds it)")
            return
        ok, out = build_race_probe()
        if not ok:
            ctx.notes.append("race probe: go build -race failed: " + out[-400:])
            return
    rc, out, dt = vk.sh([RACE_BIN], cwd=vk.ROOT, env=vk.goenv(), timeout=120)
    pairs = []
    for blk in out.split("==================")[1:]:
        if "DATA RACE" not in blk:
            continue
        fr = re.findall(r"(/[\w./-]+/executor/\w+\.go:\d+)", blk)
        fr = [f for f in fr if "/harness/" not in f and "verif_" not in f]
        if len(fr) >= 2:
            pairs.append((os.path.basename(fr[0]), os.path.basename(fr[-1])))
    info.setdefault("extra_coverage", {})["race_probe_reports"] = sorted(set("%s <-> %s" % p for p in pairs))
    if pairs:
        rows.append({"holds": False, "class": "unsynchronised-flush-flags", "source": "race-probe:bin/c18race_race",
                     "input": {"mode": "race-detector"}, "obs": {"reports": sorted(set(pairs))},
                     "detail": "go race detector: " + "; ".join(sorted(set("%s <-> %s" % p for p in pairs))),
                     "tags": ["mode:race-detector"], "key": "race-probe", "nontrivial": False})
    else:
        ctx.notes.append("race probe ran, no report with both stacks inside /repo/executor")


SPEC = {
    "id": "C18",
    "coq_props": ["Properties/C18.v", "Corr/C18.v"],
    "module": "MS.Properties.C18",
    "theorems": ["C18_refuted", "C18_read_committed_refuted", "C18_race_free",
                 "C18_variable_no_continuation", "C18_fixed_read_committed"],
    "corr_require": "Require Import MS.Corr.C18.",
    "agrees": "C18.agrees",
    "in_domain": "C18.in_domain",
    "model_prop": "fun k => implb (C18.in_domain k) (C18.model_prop k)",
    "n_quick": 80,
    "n_thorough": 4000,
    "shard": 70,
    "post": race_probe,
    "engine": "coq+implrun (+ go race detector as search)",
    "technique": "Coq invariant proofs on an executable per-syscall interleaving LTS (all schedules, any number of slots/writes/readers) "
                 "+ trace validation of forced runs: the real WriteBufferToFileIndirect stopped between its data Write and its index "
                 "Write (interposed ReadWriteSeeker) with real queries in the window; happens-before argument on the flush-protocol LTS "
                 "for the data races, confirmed by a go -race build of the real code (search)",
    "rule": "see harness/props/c18.go: 1-3 slots of one variable-length bucket + one fixed bucket, compression on (60%) or off; 3-10 ops: "
            "complete writes (real WriteCSM), split writes (real WriteBufferToFileIndirect stopped between data and index Write, real "
            "queries in the window), queries, fixed writes/reads; 8% statistical race runs (real loop, search only); distinct = "
            "distinct schedule; non-trivial = >= 1 query and >= 2 writes",
    "trusted_base": [
        "Coq 8.16.1 kernel + vm_compute (no native_compute); axioms: none (Closed under the global context)",
        "the LTS Model/RWRace.v is hand-written from executor/writer.go:148-258, wal.go:380-436, readvariable.go:55-72; per-syscall "
        "atomicity of pread/pwrite on one file, a single flusher goroutine, and the abstraction 'a compressed block read with another "
        "length than it was written with fails to decode' are ASSUMED (DESIGN §10: partial)",
        "Model/WalLoopHB.v: an OVER-approximation of happens-before for channels (every earlier send to every later receive) plus the "
        "mutex edge of walFlagsMu between any two flag accesses - ASSUMES every access to haveWALWriter/*shutdownPending in the code "
        "goes through the four accessor functions (checked by reading executor/wal.go; the race-detector probe is the search for a "
        "missed access); the LTS WalLoop.v is C07's",
        "trace validation: harness/props/c18.go drives the real WriteCSM / WriteBufferToFileIndirect / ExecuteQuery on real bucket files; "
        "Corr/C18.v replays every recorded label and observation (query results, on-disk index triples, fixed-slot values) by vm_compute",
        "add-only shim /repo/executor/verif_h.go (only VerifHSetHave/GetHave are used here); Go harness, Python driver lib/vk.py",
    ],
    "assumptions": [
        "the reader's two stages are not separable from outside, so recorded schedules have RIdx immediately followed by RData; the "
        "window 'data write between a reader's index read and its data read' is covered by the theorems and the statistical runs only",
        "torn reads/writes inside one syscall, buffile's block cache for >= 100 fixed writes per TG, races in code not modelled, and "
        "the Go runtime's behaviour on a racy access are outside the model",
        "guard no_cont: the write is not an in-place continuation (the slot's block is not the last one of the file)",
    ],
    "level": "proof",
    "level_text": "Coq theorems on the per-syscall LTS of primary writes vs query reads, for EVERY interleaving, any number of slots, "
                  "writes and readers: fixed-length buckets are read-committed at row granularity (C18_fixed_read_committed, no guard); "
                  "variable-length buckets are read-committed whenever the writer does not overwrite in place "
                  "(C18_variable_no_continuation); and, for the code after the fix of F18, every schedule of the flush protocol is free "
                  "of unordered conflicting accesses to haveWALWriter / *shutdownPending (C18_race_free). The read-committed clause of "
                  "the full statement is still refuted: a reader inside an in-place continuation write gets a decode error (compression "
                  "on) or an uncommitted record while missing a committed one (compression off) (C18_read_committed_refuted; "
                  "KNOWN-FINDING continuation-write-window, replayed on the real code by stopping the real writer between its two Writes).",
    "level_note": "PARTIAL in the sense of DESIGN §10: theorems are about the LTSs; per-syscall atomicity, Go's scheduler and memory model "
                  "are assumptions; race reports come from the model's happens-before argument and, as search, from go -race. No axioms. "
                  "Guarded (no in-place continuation). Modelled not verified: writer.go WriteBufferToFile, WriteBufferToFileIndirect; "
                  "wal.go writeFixedBuffer/writeVariableLengthBuffer; readvariable.go readSecondStage; scanner first stage (as one pread).",
    "design_ref": "§6 C18, §5.2, §8 F6 F18, §10",
}


def setup():
    ok, out = build_race_probe()
    print("C18 setup: race probe build %s" % ("ok" if ok else "FAILED:\n" + out[-800:]))


def run(ctx, replay=None):
    return vk.standard_check(SPEC, ctx, replay)
