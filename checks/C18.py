import os
import re
import sys

sys.path.insert(0, os.path.join(os.path.dirname(os.path.dirname(os.path.abspath(__file__))), "lib"))
import vk  # noqa: E402

RACE_BIN = os.path.join(vk.HARNESS, "bin", "c18race_race")


def _stamp():
    """What the race-probe binary was built from: REPO's commit + working-tree status + the probe's own sources."""
    import hashlib
    h = hashlib.sha1()
    for cmd in (["git", "-C", vk.REPO, "rev-parse", "HEAD"], ["git", "-C", vk.REPO, "status", "--porcelain"],
                ["git", "-C", vk.REPO, "diff"]):
        rc, out, _ = vk.sh(cmd, timeout=60)
        h.update(out.encode())
    for f in (os.path.join(vk.HARNESS, "cmd", "c18race", "main.go"), os.path.join(vk.HARNESS, "internal", "schedx", "inst.go")):
        h.update(open(f, "rb").read())
    h.update(os.path.realpath(vk.REPO).encode())
    return h.hexdigest()


def build_race_probe(timeout=2400):
    """go build -race of harness/cmd/c18race against REPO.  The go build cache makes this a relink when nothing
    relevant changed; ~2 min when executor/catalog changed, several minutes when the cache is cold."""
    with vk.Lock(os.path.join(vk.HARNESS, ".lock")):
        cmd = ["go", "build", "-race", "-tags", "verif", "-o", RACE_BIN, "./cmd/c18race"]
        if os.path.realpath(vk.REPO) != "/repo":
            alt = os.path.join(vk.HARNESS, "alt.mod")
            if not os.path.exists(alt):
                gm = os.path.join(vk.HARNESS, "go.mod")
                open(alt, "w").write(open(gm).read().replace("=> /repo", "=> " + os.path.realpath(vk.REPO)))
                import shutil
                shutil.copyfile(os.path.join(vk.REPO, "go.sum"), os.path.join(vk.HARNESS, "alt.sum"))
            cmd = ["go", "build", "-race", "-modfile", alt, "-tags", "verif", "-o", RACE_BIN, "./cmd/c18race"]
        rc, out, dt = vk.sh(cmd, cwd=vk.HARNESS, env=vk.goenv(), timeout=timeout)
        if rc == 0:
            open(RACE_BIN + ".stamp", "w").write(_stamp())
        return rc == 0, out


def probe_fresh():
    try:
        return os.path.exists(RACE_BIN) and open(RACE_BIN + ".stamp").read() == _stamp()
    except OSError:
        return False


ACCESSORS = {"setHaveWALWriter", "getHaveWALWriter", "setShutdownPending", "isShutdownPending"}


def flag_accesses_outside_accessors():
    """Source tie for C18_race_free: the theorem's happens-before relation has a mutex edge between any two accesses
    to haveWALWriter / *shutdownPending because every access is inside walFlagsMu.  List the places in
    executor/*.go (verif_* shims excluded) that touch the flags outside the four accessor functions."""
    bad = []
    d = os.path.join(vk.REPO, "executor")
    for fn in sorted(os.listdir(d)):
        if not fn.endswith(".go") or fn.endswith("_test.go") or fn.startswith("verif_"):
            continue
        cur, in_var = None, False
        for n, line in enumerate(open(os.path.join(d, fn), errors="replace"), 1):
            code = line.split("//")[0]
            m = re.match(r"^func\s+(\([^)]*\)\s*)?(\w+)\s*\(", line)
            if m:
                cur = m.group(2)
            if re.match(r"^var\s*\(", line):
                in_var = True
            elif in_var and line.startswith(")"):
                in_var = False
            if not re.search(r"\bhaveWALWriter\b|\bshutdownPending\b", code):
                continue
            if cur in ACCESSORS and not in_var and not line.startswith("func") or (cur in ACCESSORS and line.startswith("func")):
                continue
            if in_var and re.search(r"haveWALWriter\s*=\s*false", code):
                continue
            if re.search(r"shutdownPending\s+\*bool|shutdownPending\s*:=\s*false|shutdownPending:\s*&shutdownPending", code):
                continue  # field declaration and NewWALFile's initialisation (before the value is shared)
            bad.append("%s:%d: %s" % (fn, n, line.strip()))
    return bad


CAT_MAPS = r"(datafile|subDirs)"
# functions that touch the maps of objects no other goroutine can reach yet
CAT_EXEMPT = {
    "load": "builds a fresh Directory tree inside NewDirectory, before the tree is published",
    "NewDirectory": "constructor",
}
# reads that hold only an ancestor's lock; justified inside C18's quantifier (write requests and queries): the subDirs map
# of a non-root directory is written only by RemoveTimeBucket (destroy), which is C17's subject, not C18's
CAT_READ_GAPS = {
    "ListTimeBucketKeyNames": "reads symbolDir.subDirs / timeframeDir.subDirs under the root's read lock only; those maps are "
                              "written only by bucket destruction (C17)",
}


def catalog_lock_discipline():
    """Source tie for C18_catalog_race_free (hypothesis `disciplined` + 'reads under a lock').
    What is checked, textually, in every non-test, non-verif file of catalog/:
      * a WRITE to a directory map - `X.datafile[..] =`, `X.subDirs[..] =`, `delete(X.datafile|subDirs, ..)`, or an
        assignment of the whole field `X.datafile =` / `X.subDirs =` - occurs in a function after `X.Lock()` of the SAME
        receiver variable X and before its non-deferred `X.Unlock()` (a `defer X.Unlock()` holds to the end of the function);
      * any other mention of `X.datafile` / `X.subDirs` (a READ) occurs after `X.RLock()` or `X.Lock()` likewise;
      * an unlock directly followed by `return` (early exit inside a branch) does not end the region for the lines after it;
      * functions that document that their CALLER holds the lock - `addSubdir` and every function named `*Locked` - may
        read and write the receiver's maps; every call `X.addSubdir(` / `X.<name>Locked(` must be under `X.Lock()`;
      * level functions - a function literal or a named function with the signature `(d *Directory, _ interface{}) error` -
        may READ d's maps: they are run by `recurse`, which is checked to take `d.RLock()` before calling `levelFunc(d`;
      * exempt: CAT_EXEMPT (objects not yet shared) and CAT_READ_GAPS (reads under an ancestor's lock; reason given).
    `directMap` is a *sync.Map and is not checked.  Returns the offending places."""
    bad = []
    d = os.path.join(vk.REPO, "catalog")
    recurse_ok = False
    for fn in sorted(os.listdir(d)):
        if not fn.endswith(".go") or fn.endswith("_test.go") or fn.startswith("verif_"):
            continue
        lines = open(os.path.join(d, fn), errors="replace").read().split("\n")
        cur, held, level_named, closure_indent = None, {}, False, None
        for n, line in enumerate(lines, 1):
            code = line.split("//")[0]
            m = re.match(r"^func\s+(\([^)]*\)\s*)?(\w+)\s*\((.*)", line)
            if m:
                cur, held, closure_indent = m.group(2), {}, None
                level_named = bool(re.match(r"\s*d \*Directory,\s*\w+ interface\{\}\)\s*error", m.group(3)))
            if closure_indent is None and re.search(r"func\(d \*Directory,\s*\w+ interface\{\}\)\s*error\s*\{", code):
                closure_indent = re.match(r"\s*", line).group(0)
            elif closure_indent is not None and line.rstrip() == closure_indent + "}":
                closure_indent = None
            for mm in re.finditer(r"\b(\w+)\.(R?)Lock\(\)", code):
                if "defer" not in code:
                    held[mm.group(1)] = "R" if mm.group(2) else "W"
            for mm in re.finditer(r"\b(\w+)\.R?Unlock\(\)", code):
                if "defer" in code:
                    continue
                nxt = next((l.strip() for l in lines[n:] if l.strip()), "")
                if not nxt.startswith("return"):
                    held.pop(mm.group(1), None)
            if cur == "recurse" and re.search(r"levelFunc\(d\b", code) and held.get("d") in ("R", "W"):
                recurse_ok = True
            if cur in CAT_EXEMPT:
                continue
            caller_holds = cur == "addSubdir" or (cur or "").endswith("Locked")
            for mm in re.finditer(r"\b(\w+)\.(addSubdir|\w+Locked)\(", code):
                if held.get(mm.group(1)) != "W" and not caller_holds and not line.startswith("func"):
                    bad.append("%s:%d: %s called without %s.Lock(): %s" % (fn, n, mm.group(2), mm.group(1), line.strip()))
            writes = set()
            for mm in re.finditer(r"\b(\w+)\." + CAT_MAPS + r"(\[[^\]]*\])?\s*(,\s*\w+\s*)?=(?!=)", code):
                writes.add(mm.start())
                if held.get(mm.group(1)) != "W" and not caller_holds:
                    bad.append("%s:%d: map write outside %s.Lock(): %s" % (fn, n, mm.group(1), line.strip()))
            for mm in re.finditer(r"delete\(\s*(\w+)\." + CAT_MAPS, code):
                writes.add(code.find(mm.group(1) + ".", mm.start()))
                if held.get(mm.group(1)) != "W" and not caller_holds:
                    bad.append("%s:%d: map delete outside %s.Lock(): %s" % (fn, n, mm.group(1), line.strip()))
            for mm in re.finditer(r"\b(\w+)\." + CAT_MAPS + r"\b", code):
                if mm.start() in writes or held.get(mm.group(1)) in ("R", "W") or caller_holds:
                    continue
                if mm.group(1) == "d" and (level_named or closure_indent is not None):
                    continue
                if cur in CAT_READ_GAPS and mm.group(1) != "d" and mm.group(2) == "subDirs":
                    continue
                bad.append("%s:%d: map read outside %s.RLock()/Lock(): %s" % (fn, n, mm.group(1), line.strip()))
    if not recurse_ok:
        bad.append("catalog.go: recurse does not hold d.RLock() when it calls levelFunc(d, ..)")
    return bad


def race_probe(ctx, rows, info, broken):
    outside = flag_accesses_outside_accessors()
    info.setdefault("extra_coverage", {})["flag_accesses_outside_accessors"] = outside
    if outside:
        broken.append(("translation", "C18_race_free: flag accessed outside walFlagsMu",
                       "the mutex edge of Model/WalLoopHB.v is not justified by the source: " + "; ".join(outside[:6])))
    """Search only: run the -race build of the real SyncWAL/WriteCSM/Shutdown and look for reports whose
    stacks are both inside /repo.  A hit becomes an oracle failure of class unsynchronised-flush-flags, which
    is no longer a listed finding since the fix of F18: it is reported as a VIOLATION.  No binary / no hit -> a note."""
    cat_bad = catalog_lock_discipline()
    info["extra_coverage"]["catalog_map_accesses_outside_lock"] = cat_bad
    if cat_bad:
        broken.append(("translation", "C18_catalog_race_free: catalog map accessed outside the directory lock",
                       "the hypothesis `disciplined` of Model/CatLock.v is not justified by the source: " + "; ".join(cat_bad[:6])))
    if info.get("replay"):
        return
    # ---- search: the go race detector on the real code, every tier (built on demand; go build cache)
    if not probe_fresh():
        ok, out = build_race_probe()
        if not ok:
            broken.append(("correspondence", "race probe build (go build -race ./cmd/c18race)", out[-1500:]))
            return
    rc, out, dt = vk.sh([RACE_BIN], cwd=vk.ROOT, env=vk.goenv(), timeout=180)
    root = os.path.realpath(vk.REPO)
    pairs, blocks = [], []
    for blk in out.split("==================")[1:]:
        if "DATA RACE" not in blk:
            continue
        fr = re.findall(re.escape(root) + r"/([\w./-]+\.go:\d+)", blk)
        fr = [f for f in fr if "verif_" not in f and "_test.go" not in f]
        if len(fr) >= 2:
            pairs.append((fr[0], next((f for f in fr[1:] if f.split(":")[0] != "" and f != fr[0]), fr[-1])))
            blocks.append("\n".join(l for l in blk.split("\n") if '"level"' not in l)[:2500])
    info["extra_coverage"]["race_probe_reports"] = sorted(set("%s <-> %s" % p for p in pairs))
    if pairs:
        rows.append({"holds": False, "class": "data-race", "source": "race-probe:bin/c18race_race",
                     "input": {"mode": "race-detector", "workload": "harness/cmd/c18race: SyncWAL + 4 writers + queries + Shutdown; "
                               "year rollover of one bucket against 3 readers of the same bucket"},
                     "obs": {"reports": sorted(set(pairs)), "first_report": blocks[0]},
                     "detail": "go race detector on the real code: " + "; ".join(sorted(set("%s <-> %s" % p for p in pairs))),
                     "tags": ["mode:race-detector"], "key": "race-probe", "nontrivial": False})
    elif "c18race: done" not in out:
        broken.append(("correspondence", "race probe did not finish", out[-1500:]))
    else:
        ctx.notes.append("race probe ran (%.0fs), no report with both stacks inside the repository" % dt)


SPEC = {
    "id": "C18",
    "coq_props": ["Properties/C18.v", "Corr/C18.v"],
    "module": "MS.Properties.C18",
    "theorems": ["C18_refuted", "C18_read_committed_refuted", "C18_race_free", "C18_catalog_race_free",
                 "C18_variable_no_continuation", "C18_fixed_read_committed"],
    "corr_require": "Require Import MS.Corr.C18.",
    "agrees": "C18.agrees",
    "in_domain": "C18.in_domain",
    "model_prop": "fun k => implb (C18.in_domain k) (C18.model_prop k)",
    "n_quick": 80,
    "n_thorough": 4000,
    "shard": 70,
    "post": race_probe,
    "engine": "coq+implrun + go race detector probe (bin/c18race_race, every tier)",
    "technique": "Coq invariant proofs on an executable per-syscall interleaving LTS (all schedules, any number of slots/writes/readers) "
                 "+ trace validation of forced runs: the real WriteBufferToFileIndirect stopped between its data Write and its index "
                 "Write (interposed ReadWriteSeeker) with real queries in the window; happens-before argument on the flush-protocol LTS "
                 "for the data races, confirmed by a go -race build of the real code (search)",
    "rule": "see harness/props/c18.go: 1-3 slots of one variable-length bucket + one fixed bucket, compression on (60%) or off; 3-10 ops: "
            "complete writes (real WriteCSM), split writes (real WriteBufferToFileIndirect stopped between data and index Write, real "
            "queries in the window), queries, fixed writes/reads; 8% statistical race runs (real loop, search only); distinct = "
            "distinct schedule; non-trivial = >= 1 query and >= 2 writes",
    "trusted_base": [
        "Coq 8.16.1 kernel + vm_compute (no native_compute); axioms: none (Closed under the global context)",
        "the LTS Model/RWRace.v is hand-written from executor/writer.go:148-258, wal.go:380-436, readvariable.go:55-72; per-syscall "
        "atomicity of pread/pwrite on one file, a single flusher goroutine, and the abstraction 'a compressed block read with another "
        "length than it was written with fails to decode' are ASSUMED (DESIGN §10: partial)",
        "Model/WalLoopHB.v: an OVER-approximation of happens-before for channels (every earlier send to every later receive) plus the "
        "mutex edge of walFlagsMu between any two flag accesses - ASSUMES every access to haveWALWriter/*shutdownPending in the code "
        "goes through the four accessor functions (checked by reading executor/wal.go; the race-detector probe is the search for a "
        "missed access); the LTS WalLoop.v is C07's",
        "trace validation: harness/props/c18.go drives the real WriteCSM / WriteBufferToFileIndirect / ExecuteQuery on real bucket files; "
        "Corr/C18.v replays every recorded label and observation (query results, on-disk index triples, fixed-slot values) by vm_compute",
        "add-only shim /repo/executor/verif_h.go (only VerifHSetHave/GetHave are used here); Go harness, Python driver lib/vk.py",
    ],
    "assumptions": [
        "C18_catalog_race_free: a data race is 'two goroutines simultaneously at conflicting accesses of a directory's map' (operational "
        "definition); its hypothesis - every map write under the directory's write lock, every read under a lock - is tied to "
        "catalog/*.go textually on every run (checks/C18.py catalog_lock_discipline states the exact rules and exemptions); reads of "
        "a child's subDirs under an ancestor's lock only (ListTimeBucketKeyNames) are exempt because inside C18's quantifier (writes "
        "and queries, no bucket destruction) nobody writes those maps",
        "the reader's two stages are not separable from outside, so recorded schedules have RIdx immediately followed by RData; the "
        "window 'data write between a reader's index read and its data read' is covered by the theorems and the statistical runs only",
        "torn reads/writes inside one syscall, buffile's block cache for >= 100 fixed writes per TG, races in code not modelled, and "
        "the Go runtime's behaviour on a racy access are outside the model",
        "guard no_cont: the write is not an in-place continuation (the slot's block is not the last one of the file)",
    ],
    "level": "proof",
    "level_text": "Coq theorems on the per-syscall LTS of primary writes vs query reads, for EVERY interleaving, any number of slots, "
                  "writes and readers: fixed-length buckets are read-committed at row granularity (C18_fixed_read_committed, no guard); "
                  "variable-length buckets are read-committed whenever the writer does not overwrite in place "
                  "(C18_variable_no_continuation); and, for the code after the fix of F18, every schedule of the flush protocol is free "
                  "of unordered conflicting accesses to haveWALWriter / *shutdownPending (C18_race_free), and the catalog directory maps "
                  "are race-free under the RWMutex discipline the source is checked to follow (C18_catalog_race_free). The go race "
                  "detector runs on the real code in every tier (SyncWAL + writers + queries + Shutdown + a year rollover against "
                  "readers of the same bucket); any report inside the repository is a VIOLATION. The read-committed clause of "
                  "the full statement is still refuted: a reader inside an in-place continuation write gets a decode error (compression "
                  "on) or an uncommitted record while missing a committed one (compression off) (C18_read_committed_refuted; "
                  "KNOWN-FINDING continuation-write-window, replayed on the real code by stopping the real writer between its two Writes).",
    "level_note": "PARTIAL in the sense of DESIGN §10: theorems are about the LTSs; per-syscall atomicity, Go's scheduler and memory model "
                  "are assumptions; race reports come from the model's happens-before argument and, as search, from go -race. No axioms. "
                  "Guarded (no in-place continuation). Modelled not verified: writer.go WriteBufferToFile, WriteBufferToFileIndirect; "
                  "wal.go writeFixedBuffer/writeVariableLengthBuffer; readvariable.go readSecondStage; scanner first stage (as one pread).",
    "design_ref": "§6 C18, §5.2, §8 F6 F18, §10",
}


def setup():
    ok, out = build_race_probe()
    print("C18 setup: race probe build %s" % ("ok" if ok else "FAILED:\n" + out[-800:]))


def run(ctx, replay=None):
    return vk.standard_check(SPEC, ctx, replay)
