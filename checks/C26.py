import os
import sys

sys.path.insert(0, os.path.join(os.path.dirname(os.path.dirname(os.path.abspath(__file__))), "lib"))
import vk  # noqa: E402

SPEC = {
    "id": "C26",
    "coq_props": ["Properties/C26.v", "Corr/C26.v"],
    "module": "MS.Properties.C26",
    "theorems": ["C26_no_fault", "C26_no_deadlock", "C26_refuted", "C26_delivery_refuted",
                 "C26_stable_no_fault", "C26_stable_delivery", "C26_stable_complete", "C26_stable_progress"],
    "corr_require": "Require Import MS.Corr.C26.",
    "agrees": "C26.agrees",
    "in_domain": "C26.in_domain",
    "model_prop": "C26.model_prop",   # no fault / no race along EVERY recorded schedule (C26_no_fault has no guard)
    "n_quick": 45,
    "n_thorough": 1500,
    "shard": 60,
    "engine": "coq+implrun+c26child (forced schedules on the real code in child processes, trace validation in Coq)",
    "technique": "Coq invariant proofs on an executable interleaving LTS (all schedules, any number of replicas/TGs) + trace "
                 "validation of forced schedules of the real GRPCReplicationServer/Sender (hold points = the code's own log "
                 "statements through a zap core, fake stream objects), refutation witnesses replayed in child processes",
    "rule": "see harness/props/c26.go: 1-4 fake replica streams against the REAL GRPCReplicationServer + Sender, each case in its own "
            "child process; 45% stable (connect all, commits with stalled/unstalled replicas), 25% connects/disconnects between "
            "commits, 10% disconnect while the sender holds the channel, 8% connect inside the sender's iteration, 6% same client "
            "address twice, 6% stress (search only, no label trace); distinct = distinct schedule; non-trivial = >= 2 deliveries",
    "trusted_base": [
        "Coq 8.16.1 kernel + vm_compute (no native_compute); axioms: none (Closed under the global context)",
        "the LTS Model/Fanout.v is hand-written from replication/grpc_server.go:42-85 and sender.go:25-52; channel semantics and the "
        "runtime's map-fault detection (hashWriting flag checked by mapiternext/mapassign/mapdelete) are ASSUMED as modelled "
        "(DESIGN §10: partial)",
        "translator gen/: defaultReplicationStreamChannelSize, defaultSenderChannelSize regenerated from /repo on every run",
        "trace validation: harness/internal/c26x drives the real server/sender; hold and observation points are the code's own "
        "log statements (zap core installed by the child) and the fake streams' Send; Corr/C26.v replays every recorded label and "
        "observation (deliveries per replica, map size, returned streams, process fault kind, WAL-loop blocked) by vm_compute",
        "Go harness (parent + bin/c26child), Python driver lib/vk.py",
    ],
    "assumptions": [
        "the delivery theorems are about the STABLE system: all replicas connected with pairwise distinct client addresses, no "
        "stream.Send fails; C26_no_fault has no such guard",
        "the runtime detects a concurrent map write only while the writer is inside mapassign/mapdelete; the model's [race] flag "
        "marks every write that overlaps an iteration (what `go test -race` would report)",
        "gRPC transport itself is not modelled (fake stream objects)",
    ],
    "level": "proof",
    "level_text": "Coq theorems on the interleaving LTS of sender goroutine / per-replica stream goroutines / RWMutex-protected map (the "
                  "code after the fix of F22a/b), for EVERY schedule, any number of replicas and TGs, any capacities: C26_no_fault - from "
                  "the empty server, under any interleaving of connects, failing Sends and disconnects with the fan-out (addresses may "
                  "coincide), no runtime fault (concurrent map access, send on closed channel) and no racing map access is reachable; "
                  "in the stable system delivered(r) ++ in-flight(r) = commit sequence (C26_stable_delivery: FIFO, nothing lost or "
                  "duplicated), completeness at quiescence (C26_stable_complete), the master never blocks by itself "
                  "(C26_stable_progress). The delivery clause of the full statement is still refuted for equal client addresses "
                  "(C26_delivery_refuted, KNOWN-FINDING same-client-address) and a stalled replica blocks the WAL loop (KNOWN-FINDING "
                  "stalled-replica); the pre-fix fault witnesses are regression schedules replayed on the real code.",
    "level_note": "PARTIAL in the sense of DESIGN §10: theorems are about the LTS; Go's scheduler, channels and the runtime's map "
                  "fault detection are its assumptions, tied to the code by trace validation of forced runs. No axioms. Guarded "
                  "(stable set of replicas). Modelled not verified: grpc_server.go GetWALStream, SendReplicationMessage; sender.go "
                  "Run, Send. gRPC itself is outside the model.",
    "design_ref": "§6 C26, §5.2, §8 F22, §10",
}


def cleanup_order(ctx, rows, info, broken):
    """Source tie for the lock discipline and the cleanup ORDER the theorems assume (replication/grpc_server.go):
      * SendReplicationMessage takes rs.mu.RLock() before `range rs.StreamChannels`;
      * in GetWALStream the insert `rs.StreamChannels[clientAddr] =` lies between rs.mu.Lock() and rs.mu.Unlock();
      * in the cleanup, the drainer `go func() { for range streamChannel ... }()` is STARTED BEFORE the rs.mu.Lock() that
        precedes `delete(rs.StreamChannels, ...)` (C26_no_deadlock needs GSpawn before GDelB; the swapped order deadlocks:
        C26_swapped_order_deadlocks), and `close(streamChannel)` lies between that Lock and the following Unlock."""
    import os
    import re
    p = os.path.join(vk.REPO, "replication", "grpc_server.go")
    bad = []
    try:
        t = re.sub(r"//[^\n]*", "", open(p, errors="replace").read())
    except OSError as e:
        bad.append(str(e))
        t = ""
    i_send = t.find("func (rs *GRPCReplicationServer) SendReplicationMessage")
    if i_send < 0 or not (0 <= t.find("rs.mu.RLock()", i_send) < t.find("range rs.StreamChannels", i_send)):
        bad.append("SendReplicationMessage does not take rs.mu.RLock() before ranging over StreamChannels")
    g = t[t.find("func (rs *GRPCReplicationServer) GetWALStream"):i_send if i_send > 0 else None]
    i_ins = g.find("rs.StreamChannels[clientAddr] =")
    if i_ins < 0 or g.rfind("rs.mu.Lock()", 0, i_ins) < 0 or g.rfind("rs.mu.Lock()", 0, i_ins) < g.rfind("rs.mu.Unlock()", 0, i_ins):
        bad.append("GetWALStream: the map insert is not under rs.mu.Lock()")
    i_del = g.find("delete(rs.StreamChannels")
    i_lock = g.rfind("rs.mu.Lock()", 0, i_del) if i_del >= 0 else -1
    i_drain = g.find("for range streamChannel")
    i_go = g.rfind("go func()", 0, i_drain) if i_drain >= 0 else -1
    if i_del < 0 or i_lock < 0 or i_lock < g.rfind("rs.mu.Unlock()", 0, i_del):
        bad.append("GetWALStream: delete(rs.StreamChannels, ..) is not under rs.mu.Lock()")
    if i_drain < 0 or i_go < 0:
        bad.append("GetWALStream: no drainer goroutine (go func() { for range streamChannel {} }()) in the cleanup")
    elif i_lock >= 0 and not (i_go < i_lock and i_drain < i_lock):
        bad.append("GetWALStream: the drainer goroutine is started AFTER rs.mu.Lock() of the cleanup (must precede it)")
    i_close = g.find("close(streamChannel)")
    if i_close < 0 or not (i_lock >= 0 and i_lock < i_close < g.find("rs.mu.Unlock()", i_close if i_close >= 0 else 0)):
        bad.append("GetWALStream: close(streamChannel) is not between the cleanup's rs.mu.Lock() and rs.mu.Unlock()")
    info.setdefault("extra_coverage", {})["replication_lock_order_offences"] = bad
    if bad:
        broken.append(("translation", "C26_no_deadlock / C26_no_fault: lock discipline or cleanup order not as modelled", "; ".join(bad)))


SPEC["post"] = cleanup_order


def run(ctx, replay=None):
    rc = vk.standard_check(SPEC, ctx, replay)
    return rc
