SPEC = {
    "id": "C12",
    "coq_props": ["Properties/C12.v", "Corr/C12.v"],
    "module": "MS.Properties.C12",
    "theorems": ["C12_slots", "C12_fixed", "C12_variable", "C12_refuted_variable", "C12_refuted_scaled"],
    "corr_require": "Require Import MS.Corr.C12.",
    "agrees": "C12.agrees",
    "in_domain": "C12.in_domain",
    "model_prop": "C12.model_limit",
    "n_quick": 60,
    "n_thorough": 4000,
    "shard": 5,
    "rule": "see harness/props/c12.go: one fixed or variable bucket per case on a real instance, written through WriteCSM over 1-3 years, "
            "state = the unlimited all-time query regrouped into index slots; 3-6 queries per case (all-time / one- / two-sided ranges with "
            "bounds on records, interval boundaries and inside intervals; N in {1,2,3,total-1,total,total+k,8191..16385,random}; from start "
            "or end; 6% non-queryable request timeframes), each limited query paired with its unlimited twin; ~1% fixed buckets with "
            "> 8192 / > 16384 live slots in a year file (one in the corpus); distinct = distinct input; non-trivial = a query inside the "
            "guard on a bucket with >= 2 stored records",
    "trusted_base": [
        "Coq 8.16.1 kernel + vm_compute (no native_compute); axioms: none (Closed under the global context)",
        "translator gen/: Src_fstore (IndexToOffset with Headersize, recordsPerRead, epochLenBytes ...) regenerated on every run",
        "hand-written models coq/Model/FStore.v (NewIOPlan, packingReader, readForward/readBackward at slot level), coq/Model/VRead.v "
        "(ExecuteQuery limit scaling, second stage, trimResultsToRange, trimResultsToLimit), coq/Model/UTime.v (UTC), tied by in-Coq "
        "evaluation of every generated query against QueryService.ExecuteQuery of the real code (harness/props/c12.go)",
        "Go harness (internal/fxinst), Python driver lib/vk.py",
    ],
    "assumptions": [
        "UTC only; timestamps 1970..2369; request timeframes with suffix Sec/Min/H/D/W (not M)",
        "the stored state of a case is what the unlimited all-time query returns (records as decoded by the implementation), regrouped "
        "into intervals; variable records are written away from interval boundaries (the tick codec is C10's)",
        "N >= 1 and N * recordLength < 2^31 (int32 limitBytes); outside, the model mirrors the wrap but the theorems do not speak",
        "chunking (8192 records per read, seekBackward) is not in the model: it is what the correspondence exercises, "
        "including > 8192 and > 16384 live slots in one file",
        "snappy, tick decoding and the x4/x2 buffer arithmetic of readSecondStage are outside the model",
    ],
    "level": "proof",
    "level_text": "Coq theorems: C12_slots — for EVERY stored slot state, range, direction and N (N*recLen < 2^31) the limited scan of "
                  "read/readForward/readBackward returns the first/last N slots of the unlimited scan (induction over the year files); "
                  "C12_fixed — hence ExecuteQuery on fixed buckets, when the key names a queryable timeframe; C12_variable — for variable "
                  "buckets after trimResultsToRange/trimResultsToLimit under guard_var (time-ordered records, limit covers the scanned "
                  "intervals or the bound on the counting side cuts nothing). C12_refuted_variable (F12) and C12_refuted_scaled exhibit "
                  "the two defect classes (a third, variable-last-limit-spans-year-files, found here, was fixed in /repo ca55ae9: "
                  "C12_last_span_regression). Model tied to the code by differential in-Coq evaluation on every run.",
    "level_note": "No axioms. Trusted: Coq kernel/VM, gen translator, harness. Modelled not verified: executor/scanner.go read/readForward/"
                  "readBackward/trimResultsToRange/trimResultsToLimit, readvariable.go (as record concatenation), frontend/query.go "
                  "ExecuteQuery, utils/timeframe.go QueryableTimeframe/QueryableNrecords.",
    "design_ref": "§6 C12",
}
