SPEC = {
    "id": "C16",
    "coq_props": ["Properties/C16.v", "Corr/C16.v"],
    "module": "MS.Properties.C16",
    "theorems": ["C16_confined"],
    "corr_require": "Require Import MS.Corr.C16.",
    "agrees": "C16.agrees",
    "in_domain": "C16.in_domain",
    "model_prop": "C16.model_confined",
    "n_quick": 200,
    "n_thorough": 6000,
    "shard": 40,
    "rule": "see harness/props/c16.go: 1-6 requests (create / write incl. auto-create and new-year files / destroy / query) on a fresh real "
            "instance in a sandbox, ~45% of the runs with hostile keys ('..', '.', empty, absolute-looking, extra/missing components, reserved "
            "names, odd category keys); the whole sandbox is listed after every request; 1-2 string pairs for the lexical path functions; "
            "distinct = distinct input; non-trivial = >=1 successful mutating request",
    "trusted_base": [
        "Coq 8.16.1 kernel + vm_compute (no native_compute); axioms: none (Closed under the global context)",
        "hand-written model coq/Base/Path.v (filepath.Join/Clean, path.Dir/Join, Base, Ext, strings.Split) and coq/Model/Catalog.v "
        "(catalog.go AddTimeBucket/RemoveTimeBucket/AddFile/load, keytypes.go, frontend Create/Destroy, WriteCSM's bucket lookup / auto-create / "
        "new-year path), tied by in-Coq evaluation of every generated case against the real instance (result code, full sandbox listing, "
        "ListTimeBucketKeyNames, GatherTimeBucketInfo after every request; path functions on extra string pairs)",
        "file-system model: a tree of directories and files below the sandbox with lexical path resolution (no symlinks - the server creates none), "
        "ENOENT/ENOTDIR distinguished as os.Stat does; 'touches' = mkdir, create/truncate, pwrite, RemoveAll recorded by the model's own wrappers",
        "Go harness (harness/props/c16.go, catcase.go, internal/catinst), add-only hook /repo/executor/verif_catinst.go (small TransactionPipe), Python driver lib/vk.py",
    ],
    "assumptions": [
        "the timeframe verdict utils.TimeframeFromString(item) != nil is an input of the model (taken from the real function per request); the theorem holds for either verdict",
        "directMap values (*Directory pointers) are modelled as addresses in the in-memory tree; year-file contents are a schema tag; the WAL file in the root is not modelled",
        "within = lexical containment after Clean; symlinks planted by another party inside the root are outside the model",
        "error strings that contain 'file exists' / 'Can not overwrite file' by accident (a key component with that text) are not modelled",
    ],
    "level": "proof",
    "level_text": "Coq theorem C16_confined: for EVERY absolute root and EVERY sequence of create/write/destroy/query/restart requests with ARBITRARY key strings, "
                  "starting from an empty data root, every mkdir, file creation, pwrite and RemoveAll of the run is lexically inside the root (proved by invariants over "
                  "the file-system tree and the in-memory catalog, through the directory scan). No guard: since fix: commit AddTimeBucket rejects keys with an empty, "
                  "'.' or '..' item before touching anything; the former witnesses are regression cases in corpus/C16.",
    "level_note": "No axioms. Trusted: Coq kernel/VM, harness, the lexical FS model. Modelled not verified: catalog/catalog.go, utils/io/keytypes.go, "
                  "frontend/write.go Create/Destroy, executor/writer.go WriteCSM (path-relevant part), path/filepath Clean/Join. "
                  "Also observed: a key with more items than categories panics (index out of range) after creating directories - inside the root.",
    "design_ref": "§6 C16",
}
