from checks import durab_common as dc

SPEC = dc.spec(
    "C35", ["C35_shutdown_restart", "C35_same_queries"], "Durab.c35_prop", 6, 60,
    level_text="Coq theorem C35_shutdown_restart: for EVERY schedule (any interleaving of requests, flushes, checkpoints, rotations) "
               "that ends with the shutdown branch of the WAL loop (FlushToWAL; CreateCheckpoint), a restart on the final image "
               "succeeds, replays nothing (no variable-length record can be duplicated), deletes the old WAL and leaves every primary "
               "file identical; C35_same_queries: identical files give identical query results.",
    level_note="No axioms.  The tie queries every bucket in the workload process just before the shutdown and compares with the "
               "restart's results on the final image (real code), and checks the model on the same image.  Half of the histories "
               "run the REAL writer goroutine (SyncWAL) and call Shutdown() (the loop's shutdown branch); the other half run in "
               "synchronous mode with checkpoints/rotations before the same two calls.  Shutdown() racing with concurrent writers "
               "(RequestFlush finding haveWALWriter=false) is outside the statement and not exercised (C07/C18).",
    design_ref="§6 C35",
    rule=dc.RULE + "  C35: every history ends with a shutdown step; half of them have checkpoints/rotations before it; only the "
                   "final image is explored (one prefix per history).")


def run(ctx, replay):
    return dc.run_check(SPEC, ctx, replay)
