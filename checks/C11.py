SPEC = {
    "id": "C11",
    "coq_props": ["Properties/C11.v", "Corr/C11.v"],
    "module": "MS.Properties.C11",
    "theorems": ["C11_range", "C11_fixed", "C11_variable", "C11_whole", "C11_plan", "C11_trim"],
    "corr_require": "Require Import MS.Corr.C11.",
    "agrees": "C11.agrees",
    "in_domain": "C11.in_domain",
    "model_prop": "fun k => implb (C11.in_domain k) (C11.model_prop k)",
    "n_quick": 300,
    "n_thorough": 12000,
    "shard": 30,
    "rule": "see harness/props/c11.go: 30% trimResultsToRange/Limit on generated buffers, 15% Go time/TimeToIndex/IndexToTime/FileSize "
            "instants, 55% end-to-end queries on a real temp instance (fixed and variable buckets, 11 timeframes, 1-3 years, ranges inside "
            "intervals / on edges / across years / empty / inverted / API defaults / planner default) each with the unrestricted query; "
            "distinct = distinct input JSON; non-trivial = inside the guarded theorem's domain with a non-empty history (query) or >= 2 rows (trim)",
    "trusted_base": [
        "Coq 8.16.1 kernel + vm_compute (no native_compute); axioms: none (Closed under the global context)",
        "translator gen/: executor epochLenBytes/nanosecLenBytes/intervalTicksLenBytes/recordsPerRead, io.Headersize, planner maxSec/"
        "maxNanosec, utils.Day, utils.Timeframes (order matters: QueryableTimeframe), io.IndexToOffset and io.FileSize are regenerated "
        "from /repo on every run (gen/conf.d/query.json)",
        "hand-written models coq/Model/{QTime,Trim,RangeRead}.v of time.Time (UTC), TimeToIndex/IndexToTime, trimResultsToRange/Limit, "
        "NewIOPlan, packingReader (over slots), readSecondStage's buffer arithmetic, ExecuteQuery's queryable timeframe; tied by in-Coq "
        "evaluation of every generated case against the real code (harness/props/c11.go, hooks executor/verif_c11.go)",
        "Base/Civil.v (Gregorian day arithmetic, proved) as the meaning of Go's Year()/YearDay()/Date(): compared with package time on every run",
        "harness file-state extraction (harness/internal/stq: raw read of the year files, snappy decode, real GetTimeFromTicks), Go harness, Python driver lib/vk.py",
    ],
    "assumptions": [
        "instance timezone UTC (utils.InstanceConfig.Timezone default; TZ=UTC)",
        "one bucket per query, no row limit (C12), all columns (C13), variable compression enabled (default)",
        "the stored history is a file state (occupied slots + decoded records); which states WriteCSM produces is C08/C09",
        "variable-length records reach the model with the (second, nanosecond) the real GetTimeFromTicks decodes (C10 models the decoding)",
        "guarded theorem: bounds and file years inside years 1..9999 (no int16/int64 wrap); the wraps themselves are in the model and are "
        "compared with the real code (API default end time.Unix(MaxInt64,0), planner.MaxTime)",
    ],
    "level": "proof",
    "level_text": "Coq theorem C11_range: for EVERY well-formed file state (any queryable timeframe, fixed or variable records, any year files, "
                  "slots and records) and ALL nanosecond bounds (inside intervals, on edges, across years, empty, inverted) ExecuteQuery "
                  "returns exactly the in-range rows of the unrestricted result in order (finding no-candidate-le-end fixed in /repo 75bdceb: "
                  "the guard is gone, the former witnesses are regression cases; C11_trim: trimResultsToRange = range filter, unguarded). Model tied to the code by translation of constants/tables and by "
                  "differential in-Coq evaluation on every run (pure trim function, time functions, end-to-end queries).",
    "level_note": "No axioms. Trusted: Coq kernel/VM, gen translator, harness (incl. raw file-state extraction). Modelled not verified: "
                  "scanner.go NewIOPlan/packingReader/trimResultsToRange/trimResultsToLimit, readvariable.go buffer arithmetic, planner.go "
                  "Parse default range, frontend/query.go ExecuteQuery (queryable timeframe), timeindex.go, Go time (UTC).",
    "design_ref": "§6 C11",
}
