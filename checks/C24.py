SPEC = {
    "id": "C24",
    "coq_props": ["Properties/C24.v", "Corr/C24.v"],
    "module": "MS.Properties.C24",
    "theorems": ["C24_guarded", "C24_aggregate", "C24_aggregate_sorted", "C24_bar", "C24_guard_sound", "C24_refuted", "C24_refuted_late"],
    "corr_require": "Require Import MS.Corr.C24.",
    "agrees": "C24.agrees",
    "in_domain": "C24.in_domain",
    "model_prop": "fun k => implb (C24.in_domain k) (C24.model_prop k)",
    "n_quick": 110,
    "n_thorough": 3000,
    "shard": 20,
    "rule": "see harness/props/c24.go: histories of 1-4 writes (1-8 thorough) of 1-6 one-minute bars (1-12) on a fresh REAL instance "
            "(catalog + WAL file + TriggerPluginDispatcher) with the real OnDiskAggTrigger registered through trigger.NewMatcher and 1-3 "
            "destinations of 5Min..4H and 1D in random order (6% non-nesting); 45% append-only in order, else corrections, late arrivals, "
            "multi-window and unsorted writes; distinct = distinct input; non-trivial = inside the guard with >= 2 writes and >= 4 bars",
    "trusted_base": [
        "Coq 8.16.1 kernel + vm_compute (no native_compute)",
        "Flocq 4.1.0 (IEEE754.BinarySingleNaN) as the meaning of Go's float32 >, <, +; every statement that mentions the model's "
        "aggregate (it adds and compares float32 values) inherits ClassicalDedekindReals.sig_forall_dec, "
        "ClassicalDedekindReals.sig_not_dec, FunctionalExtensionality.functional_extensionality_dep, Classical_Prop.classic from the "
        "validity proofs inside Flocq's operations (no proof step of this development uses them); C24_guard_sound is closed under "
        "the global context",
        "hand-written model coq/Model/AggTrigger.v of aggtrigger.go (Fire, write, writeAggregates, aggregate, cachedAgg.Valid, "
        "UpperBound), the accumulator functions, io.ColumnSeriesUnion, io.SliceColumnSeriesByEpoch, trigger.RecordsToColumnSeries, on an "
        "abstract fixed-length store (one bar per slot, last writer wins) and range query; tied by in-Coq evaluation of every "
        "destination bucket after EVERY write of every generated history (harness/props/c24.go)",
        "the harness holds the real Fire back until the writer's executor.WriteCSM has returned (see notes/C24.md: without that the "
        "dispatcher can fire twice concurrently); Go harness, Python driver lib/vk.py",
    ],
    "assumptions": [
        "system timezone UTC, no market-hours filter, base bucket <sym>/1Min/OHLCV with float32 Open/High/Low/Close/Volume, one "
        "symbol, one year file, epochs on whole minutes, destination timeframes dividing 24 h incl. 1D (bucket slots = Truncate "
        "windows; no bar on 1 January: the 1D bucket's index 0 is F2)",
        "bars-to-bars path only (the TICK/TRADE path through models.FromTrades is not modelled)",
        "one Fire per write, Fires sequential (the harness waits for quiescence after every write)",
    ],
    "level": "proof",
    "level_text": "Coq theorem C24_guarded: for EVERY append-only in-order history of base writes and every set of nesting destinations, "
                  "after all fires each destination store equals the aggregation of the base store (proved as an invariant over Fire's "
                  "three branches: no cache / valid cache + union / invalid cache + query), where C24_aggregate + C24_bar state what the "
                  "aggregation is (one bar per window with base bars: first open, highest high, lowest low, last close, summed volume). "
                  "C24_refuted (rewrite inside the cached window) and C24_refuted_late (write before the cached window) exhibit F20 on "
                  "the faithful model; both witnesses plus two more classes are replayed on the real trigger on a real instance.",
    "level_note": "Axioms: only the standard real-number/classical axioms inherited through Flocq's float operations. "
                  "Trusted: Coq kernel/VM, harness. Modelled not verified: contrib/ondiskagg/aggtrigger/*.go, columnseries.go:298-396, "
                  "plugins/trigger/trigger.go:86; the store/query underneath is the abstract interval map of C08/C11.",
    "design_ref": "§6 C24, §8 F20",
}
