SPEC = {
    "id": "C07",
    "coq_props": ["Properties/C07.v", "Corr/C07.v"],
    "module": "MS.Properties.C07",
    "theorems": ["C07_full", "C07_acked_flushed", "C07_flushed_stable", "C07_steady_needed"],
    "corr_require": "Require Import MS.Corr.C07.",
    "agrees": "C07.agrees",
    "in_domain": "C07.in_domain",
    "model_prop": "fun k => implb (C07.in_domain k) (C07.model_prop k)",
    "n_quick": 70,
    "n_thorough": 3000,
    "shard": 60,
    "engine": "coq+implrun (forced schedules on the real code, trace validation in Coq)",
    "technique": "Coq invariant proof on an executable interleaving LTS (all schedules, any number of writers) + trace validation: "
                 "forced schedules on the real code, every recorded label/observation sequence replayed in the LTS inside Coq; "
                 "the pre-fix refutation witness kept as a forced regression schedule on the real SyncWAL goroutine",
    "rule": "see harness/props/c07.go: 2-6 writers with 0-3 commands each; 60% forced schedules against the REAL SyncWAL goroutine "
            "(writers started one at a time in random order; the loop held inside FlushCommandsToWAL after the WAL fsync via the "
            "ReplicationSender callback and released at random points), 30% shim-driven runs without the loop (queued token, inline "
            "flush, harness-played token arm on the real FlushToWAL), 10% free concurrent runs (oracle only); distinct = distinct "
            "schedule; non-trivial = >= 2 writers started and >= 1 acknowledgement",
    "trusted_base": [
        "Coq 8.16.1 kernel + vm_compute (no native_compute); axioms: none (Closed under the global context)",
        "the LTS Model/WalLoop.v is hand-written from executor/wal.go:218-340,712-801, writer.go:137-140,356; its atomic steps, "
        "FIFO channels, rendezvous on the unbuffered token channel and sequentially consistent shared variables are ASSUMED to be "
        "Go's (DESIGN §10: partial)",
        "translator gen/: WriteChannelCommandDepth (channel capacities) regenerated from executor/cache.go on every run",
        "trace validation: harness/props/c07.go + harness/internal/schedx drive the real WriteCSM/RequestFlush/SyncWAL/FlushToWAL; "
        "Corr/C07.v replays every recorded label and observation (returned writers, TGs parsed from the WAL file on disk, channel "
        "lengths, query results) in the LTS by vm_compute",
        "add-only shim /repo/executor/verif_h.go (len of the two channels, queue/take a token, set/read haveWALWriter, set shutdownPending)",
        "Go harness, Python driver lib/vk.py",
    ],
    "assumptions": [
        "forced schedules are sequentialised at the granularity 'one writer runs until it returns or blocks on its token'; finer "
        "interleavings (two writers inside RequestFlush at once) are covered by the theorem's quantifier and exercised only by the "
        "free concurrent runs (oracle, no label trace) until the hook points of proposed_fixes/C07_hookpoints.patch are applied",
        "the property's quantifier ('with the background WAL writer') is the class of 'steady' schedules: no writer reads "
        "haveWALWriter=false (background writer started before the first write, no write racing the shutdown branch); outside it "
        "C07_steady_needed shows the statement fails (two inline FlushToWAL calls interleave) - a remark, not a C07 finding",
        "WALBypass=false; ticker flushes and checkpoints are in the LTS, the forced runs use hour-long tickers so only the token arm fires",
    ],
    "level": "proof",
    "level_text": "Coq theorem C07_full on the interleaving LTS of WriteCSM/RequestFlush/SyncWAL/FlushToWAL (the code after the fix of "
                  "F10): for EVERY schedule of concurrent writers with the background WAL writer (timer flushes, checkpoints, queued "
                  "flush requests, shutdown), any number of writers and commands, any channel capacities, every writer whose WriteCSM "
                  "returned has all its commands fsynced in the WAL and written to the primary files; C07_flushed_stable: it stays so "
                  "for every later query. Tied to the code by trace validation of forced schedules on the real SyncWAL goroutine; the "
                  "schedule that refuted the statement before the fix is a regression case.",
    "level_note": "PARTIAL in the sense of DESIGN §10: the theorems are about the LTS; Go's scheduler, channel implementation and memory "
                  "model are its assumptions, tied to the code by trace validation of forced runs, not proved. No axioms. Modelled not "
                  "verified: executor/wal.go QueueWriteCommand, FlushToWAL, FlushCommandsToWAL (as: count, drain, WAL fsync, primary "
                  "write), SyncWAL, RequestFlush; writer.go WriteCSM/WriteRecords (as: k sends, then RequestFlush).",
    "design_ref": "§6 C07, §5.2, §8 F10, §10",
}
