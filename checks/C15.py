SPEC = {
    "id": "C15",
    "coq_props": ["Properties/C15.v", "Corr/C15.v"],
    "module": "MS.Properties.C15",
    "theorems": ["C15_header_roundtrip", "C15_writes_preserve_header", "C15_guarded", "C15_multi_year", "C15_creatable_storable",
                 "C15_create_guarded", "C15_unstorable_rejected", "C15_refuted_jan1"],
    "corr_require": "Require Import MS.Corr.C15.",
    "agrees": "C15.agrees",
    "in_domain": "C15.in_domain",
    "model_prop": "fun k => implb (C15.in_domain k) (C15.model_preserved k)",
    "n_quick": 80,
    "n_thorough": 3000,
    "shard": 6,
    "rule": "see harness/props/c15.go: timeframes 1Min..1D (35% forced 1D), 25% variable, 0-8 columns over the 12 fixed-width types, 40% clean; "
            "otherwise boundary/long/NUL-edged/empty/multi-byte names, (thorough tier only: 7% 57-64 string16 columns, 3% 1021-1027 columns; the quick tier keeps their boundary cases as corpus files), descriptions around "
            "256 bytes; 0-4 single-record writes through the real writer + WAL flush, 30% on Jan 1; distinct = distinct input; non-trivial = "
            "inside the theorem's guard with >=2 elements and >=1 write",
    "trusted_base": [
        "Coq 8.16.1 kernel + vm_compute (no native_compute); axioms: none (Closed under the global context)",
        "translator gen/: Headersize and every *HeaderBytes constant, maxNumElements, FileinfoVersion, epochLenBytes, epochColumnName, "
        "indexOffsetLengthBytes, attr_size, the enums, and the functions IndexToOffset and AlignedSize are regenerated from /repo on every run",
        "hand-written model coq/Model/Header.v (field order of the Header struct, copy() truncation, bytes.Trim, readHeader/load, the effect of "
        "WriteBufferToFile on the header region), tied by in-Coq evaluation of every generated case against NewTimeBucketInfo + "
        "catalog.AddTimeBucket (header bytes on disk), Writer.WriteRecords + WAL flush (header bytes afterwards) and a catalog restart "
        "(harness/props/c15.go)",
        "Base/Bytes.v little-endian codec lemmas (shared)",
        "Go harness, Python driver lib/vk.py",
    ],
    "assumptions": [
        "only the first Headersize bytes of the year file are modelled; a write is its effect on that region",
        "variable-length writes: the 24-byte index record found at the primary offset after the real write is recorded and replayed by the "
        "model (its content depends on snappy and the file length); the appended data lies beyond FileSize >= Headersize",
        "the write's slot index is the one io.TimeToIndex returned (time arithmetic is C30's); records of other years create new year files (AddFile from a deep copy of the bucket's TimeBucketInfo), whose header bytes are compared byte-exactly; the reloaded schema is the latest year file's",
        "the harness runs in UTC",
    ],
    "level": "proof",
    "level_text": "Coq theorems (code after the fixes d005c52, e807cb3): C15_create_guarded — for EVERY schema (names of any length/content, "
                  "any column count, any types/timeframe/record type) and EVERY list of writes at indices >= 1, creation is refused with an error or "
                  "the schema read back after the writes and a restart is exactly the created one; C15_unstorable_rejected — > 1024 elements or a "
                  "name > 32 bytes / with an edge NUL is rejected at creation; C15_header_roundtrip, C15_writes_preserve_header (via the translated "
                  "IndexToOffset), C15_guarded, C15_creatable_storable. C15_refuted_jan1 exhibits the remaining defect: a daily Jan-1 record "
                  "(index 0) longer than 2920 bytes overwrites the element types in the header. Model tied by translated constants/functions and "
                  "differential in-Coq evaluation of header bytes and reloaded schema.",
    "level_note": "No axioms. Trusted: Coq kernel/VM, gen translator, harness. Modelled not verified: utils/io/metadata.go NewTimeBucketInfo, "
                  "Header.Load/WriteHeader, CheckStorable, readHeader/load; catalog.AddTimeBucket (the schema check); executor/writer.go WriteBufferToFile (effect on the header region only).",
    "design_ref": "§6 C15",
}
