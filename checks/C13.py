SPEC = {
    "id": "C13",
    "coq_props": ["Properties/C13.v", "Corr/C13.v"],
    "module": "MS.Properties.C13",
    "theorems": ["C13_multi_is_single", "C13_multi_succeeds", "C13_star", "C13_projection_names", "C13_projection_values",
                 "C13_projection_complete", "C13_refuted_mixed", "C13_refuted_duplicate"],
    "corr_require": "Require Import MS.Corr.C13.",
    "agrees": "C13.agrees",
    "in_domain": "C13.in_domain",
    "model_prop": "C13.model_multi",
    "n_quick": 90,
    "n_thorough": 5000,
    "shard": 7,
    "rule": "see harness/props/c13.go: 2-4 symbols under one timeframe/attribute group on a real instance (fixed or variable, 0-5 rows, "
            "15% variant schemas, empty buckets, a foreign symbol under another timeframe), optional epoch range; 4-7 DataService.Query "
            "requests per case ('*', all shuffled, single, with missing, only missing, a symbol twice, subsets) x column lists (none, "
            "unknown-first + existing + duplicates, common column, only unknown, random incl. Epoch/Nanoseconds/wrong case); the "
            "response is decoded per key as a client does; distinct = distinct input; non-trivial = a guarded query with >= 2 symbols",
    "trusted_base": [
        "Coq 8.16.1 kernel + vm_compute (no native_compute); axioms: none (Closed under the global context)",
        "hand-written model coq/Model/MQuery.v (symbol-list expansion, per-key hits, FilterColumns/Project, NumpyMultiDataset assembly), "
        "tied by in-Coq evaluation of every generated request against DataService.Query of the real code (harness/props/c13.go)",
        "Go harness (internal/fxinst; response decoding by StartIndex/Lengths/ColumnTypes), Python driver lib/vk.py",
    ],
    "assumptions": [
        "the state of a case is, per catalogued symbol, the series its single unprojected query returns for the case's range; the model "
        "covers what happens between those series and the response (planner symbol walk, projection, dataset assembly), not the scan",
        "same column name => same element type within a case (same names with different types is C27's finding F23); no BOOL columns "
        "(numpy.go typeMap has no entry for BOOL: NewNumpyDataset fails and query.go:233 tests the wrong error variable)",
        "a symbol named k times: modelled as k-fold rows, generated only for buckets in one year file and not for ranged variable queries",
        "msgpack transport is not part of this check (C27)",
    ],
    "level": "proof",
    "level_text": "Coq theorems over the model of executeQuery/FilterColumns/Project/NumpyMultiDataset: C13_multi_is_single — for EVERY catalog, "
                  "repetition-free symbol list (existing and missing) and column list, an answered multi-symbol query holds under each key "
                  "exactly that symbol's single-query response and no other keys; C13_multi_succeeds — it answers when the projected schemas "
                  "agree; C13_star — '*' covers every catalogued symbol; C13_projection_* — projection returns Epoch, the requested existing "
                  "columns and Nanoseconds, each the stored column bit for bit, unknown names ignored. C13_refuted_mixed / _duplicate "
                  "exhibit the two defect classes. Tied to the code by differential in-Coq evaluation on every run.",
    "level_note": "No axioms. Trusted: Coq kernel/VM, harness. Modelled not verified: frontend/query.go executeQuery ('*' expansion, response "
                  "assembly), planner.go getFileList (symbol restriction walk), columnseries.go FilterColumns/Project, numpy.go "
                  "NewNumpyMultiDataset/Append/ToColumnSeries.",
    "design_ref": "§6 C13",
}
