SPEC = {
    "id": "C08",
    "coq_props": ["Properties/C08.v", "Corr/C08.v"],
    "module": "MS.Properties.C08",
    "theorems": ["C08_lww", "C08_spec_ascending", "C08_spec_last_write", "C08_stamp", "C08_guard_split",
                 "C08_timeframes_queryable", "C08_refuted", "C08_refuted_daily_jan1"],
    "corr_require": "Require Import MS.Corr.C08.",
    "agrees": "C08.agrees",
    "in_domain": "C08.in_domain",
    "model_prop": "fun k => implb (C08.in_domain k) (C08.model_lww k)",
    "n_quick": 160,
    "n_thorough": 6000,
    "shard": 14,
    "rule": "see harness/props/c08.go: one fixed bucket per case on a real instance in a temp root (catalog, WAL file, Writer, QueryService "
            "wired from exported constructors), timeframes 1Sec..1D, 1-4 columns over all 12 fixed-width types, 1-4 WriteCSM requests of "
            "0-10 rows (4%: 100-160 rows), 1-3 years, edge timestamps (first/last interval of a year, leap day, Dec 31), sorted/reverse/"
            "unsorted, duplicate intervals within and across requests; then the all-time ExecuteQuery; distinct = distinct input; "
            "non-trivial = inside guard_C08 with >= 2 rows",
    "trusted_base": [
        "Coq 8.16.1 kernel + vm_compute (no native_compute); axioms: none (Closed under the global context)",
        "translator gen/: Src_fstore.IndexToOffset (with Headersize folded), recordsPerRead regenerated from utils/io, executor on every run",
        "hand-written models coq/Model/FStore.v (WriteRecords grouping, WriteBufferToFile, NewIOPlan, packingReader, readForward/readBackward "
        "at slot level, QueryableTimeframe table) and coq/Model/UTime.v (UTC year / Jan 1 / TimeToIndex / IndexToTime), tied by in-Coq "
        "evaluation of every generated history against WriteCSM + ExecuteQuery of the real code (harness/props/c08.go)",
        "Go harness (harness/internal/fxinst wires the instance; it shares one TransactionPipe / TriggerPluginDispatcher between the "
        "successive instances of a run), Python driver lib/vk.py",
    ],
    "assumptions": [
        "UTC only: utils.InstanceConfig.Timezone = time.UTC and time.Local = time.UTC (Model/UTime.v is the UTC instance; zones are C30's)",
        "timestamps are whole epoch seconds in 1970-01-01 .. 2369-12-31; no column named Nanoseconds in a fixed bucket",
        "record length in [16, 2^20): no int64 offset wraps; the header tail read as the pseudo slot Headersize-recLen is zero (recLen < ~1000 in the harness)",
        "the synchronous flush path (no SyncWAL goroutine): WriteCSM -> RequestFlush -> FlushToWAL in the caller's goroutine",
        "not modelled, exercised by the correspondence only: 8192-record chunking of packingReader, buffile batching (>= 100 writes), WAL bytes",
        "an unlimited result is below 2^31 bytes (limitBytes = MaxInt32 is never reached)",
    ],
    "level": "proof",
    "level_text": "Coq theorem C08_lww: for EVERY timeframe dividing a day, record length and write history (any number of requests, rows in any "
                  "order, duplicates, years 1970-2369) outside the guarded defect class (daily bars dated January 1), the all-time query of the model of "
                  "WriteCSM/WriteRecords/WriteBufferToFile + NewIOPlan/packingReader equals the last-writer-wins interval map "
                  "(C08_spec_ascending: strictly ascending interval starts; C08_spec_last_write: each interval carries its last write; "
                  "C08_stamp: stamped with the interval start). Proved by refinement, induction over the request list. "
                  "C08_refuted_daily_jan1 exhibits the remaining defect; C08_timeframes_queryable: every utils.Timeframes entry is its own queryable timeframe (the 4H/2H order defect found here was fixed in d275195; the prevYear defect F3 in 49eddda, C08_cross_year_regression). The model is tied "
                  "to the code by translation of IndexToOffset and differential in-Coq evaluation on every run.",
    "level_note": "No axioms. Trusted: Coq kernel/VM, gen translator, harness. Modelled not verified: executor/writer.go WriteRecords/"
                  "WriteBufferToFile, executor/scanner.go NewIOPlan/packingReader/readForward, utils/io/timeindex.go (UTC), "
                  "frontend/query.go ExecuteQuery's timeframe rewriting, catalog year-file creation (as a set of years).",
    "design_ref": "§6 C08",
}
