SPEC = {
    "id": "C23",
    "coq_props": ["Properties/C23.v", "Corr/C23.v"],
    "module": "MS.Properties.C23",
    "theorems": ["C23_count", "C23_count_rows", "C23_min_fold", "C23_max_fold", "C23_min_spec", "C23_max_spec",
                 "C23_min_perm", "C23_max_perm", "C23_avg", "C23_gap", "C23_gap_pointwise", "C23_guard_sound",
                 "C23_gap_guard_sound", "C23_empty", "C23_single", "C23_refuted_anytype", "C23_refuted_gap"],
    "corr_require": "Require Import MS.Corr.C23.",
    "agrees": "C23.agrees",
    "in_domain": "C23.in_domain",
    "model_prop": "fun k => implb (C23.in_domain k) (C23.model_prop k)",
    "n_quick": 640,
    "n_thorough": 16000,
    "shard": 44,
    "rule": "see harness/props/c23.go: count/min/max/avg/gap through AggRunner.Run or New + 0-3 Accum calls; columns of all element "
            "types (85% convertible, 10% other numeric, 5% missing), 0-8 rows per call (0-60 thorough), IEEE specials and rounding ties; "
            "gap epochs stepped around the thresholds of 14 literals, extremes and values around 2^53; distinct = distinct input; "
            "non-trivial = inside the theorem's guard with >= 2 rows (gap: >= 3 epochs)",
    "trusted_base": [
        "Coq 8.16.1 kernel + vm_compute (no native_compute)",
        "Flocq 4.1.0 (IEEE754.BinarySingleNaN): binary32 = binary_float 24 128, binary64 = binary_float 53 1024, operations in mode_NE; "
        "Flocq's operations carry validity proofs that go through Coq's classical real numbers, hence Print Assumptions lists the "
        "standard-library axioms ClassicalDedekindReals.sig_forall_dec, ClassicalDedekindReals.sig_not_dec, "
        "FunctionalExtensionality.functional_extensionality_dep, Classical_Prop.classic for every theorem that mentions a float "
        "conversion; C23_gap additionally uses them through Bminus_correct/binary_normalize_correct/Bltb_correct (Proofs/F64_real.v). "
        "C23_count, C23_min_spec, C23_max_spec, C23_min_perm, C23_max_perm, C23_gap_pointwise, C23_gap_guard_sound are closed under the "
        "global context (the ordering facts via the key embedding are axiom-free)",
        "assumption that Go on amd64 implements float32/float64 +,-,/,<,> and int->float, float64<->float32 conversions as IEEE-754 "
        "round-to-nearest-even single-rounding operations (Base/FGen.v, F32.v, F64.v); tied by bit-exact differential evaluation",
        "hand-written model coq/Model/Uda.v of uda/{count,min,max,avg,gap}.Accum/Output and uda.ColumnToFloat32/64, tied by in-Coq "
        "evaluation of every generated case against the real aggregates (harness/props/c23.go)",
        "the gap threshold is derived from the literal by the harness with the same two calls gap.New makes "
        "(utils.CandleDurationFromString, Duration()/time.Second); the literal parser itself belongs to C31",
        "Go harness, Python driver lib/vk.py",
    ],
    "assumptions": [
        "floats cross the harness boundary as raw IEEE bit patterns; all NaNs are identified (canonical quiet NaN)",
        "the Epoch output column of count/min/max/avg (time.Now) is not compared",
        "gap without an explicit threshold (z-score mode through gonum/stat) is not modelled; such cases are run but only tagged",
        "avg's oracle on the implementation accepts the error bound of float64 recursive summation, (n+1)*2^-52*mean|v|; "
        "the theorem states the exact float64 expression",
    ],
    "level": "proof",
    "level_text": "Coq theorems over Model/Uda.v for EVERY input and every split of the input into Accum calls: count = number of rows; "
                  "min/max = float32 fold initialised by the first value, which on NaN-free input is a least/greatest element under Go's <= "
                  "(order-independent spec, unique up to ==, permutation invariant); avg = float64 left-fold sum / float64(count); gap with "
                  "threshold thr = exactly the consecutive pairs with epoch difference > thr, for |epoch| < 2^53 (C23_gap via Flocq's real "
                  "semantics). Empty and single-row inputs are explicit theorems. C23_refuted_anytype / C23_refuted_gap exhibit the two "
                  "defect classes outside the guards. Model tied to the code by bit-exact in-Coq evaluation on every run.",
    "level_note": "Axioms: only Coq's standard real-number/classical axioms inherited from Flocq (listed in trusted_base). Trusted: Coq "
                  "kernel/VM, Flocq's definitions as the meaning of Go's float arithmetic, harness. Modelled not verified: "
                  "uda/uda.go, uda/count, uda/min, uda/max, uda/avg, uda/gap (explicit-threshold path), AggRunner.Run only as glue.",
    "design_ref": "§6 C23",
}
