from checks import durab_common as dc

SPEC = dc.spec(
    "C04", ["C04_contains_process_crash", "C04_contains_process_crash_bytes", "C04_fsynced_record_durable",
            "C04_synced_write_durable", "C04_durable_in_every_image", "C04_refuted", "C04_partial"],
    "Durab.c04_prop", 3, 12,
    level_text="PARTIAL.  Proved in Coq: the power-loss relation (Model/PowerLoss.v on protocol events, Model/FS.v on bytes with "
               "512-byte sector tearing) contains the process crash, so C01-C03's counterexamples are C04's; a WAL record followed by "
               "an fsync of its file and a primary write followed by the checkpoint's sync are in EVERY power-loss image "
               "(C04_fsynced_record_durable, C04_synced_write_durable, C04_durable_in_every_image); the property as given is refuted "
               "(C04_refuted: an acknowledged variable-length write whose data block is lost and whose index triple is kept makes "
               "the start-up fail).  NOT proved: the guarded positive statement C04_guarded_full (kept as a Definition in "
               "Properties/C04.v); only its instance 'nothing lost' (C04_partial).  It is validated on a bounded enumeration of "
               "power-loss images: real recovery vs the model's, and the model's conclusion on each explored image.",
    level_note="No axioms.  Variant modelled: file lengths follow data (a lost WAL append takes the later ones with it; lost "
               "variable data leaves a short file).  The variant 'lengths durable, lost data reads as zeros' (zero TG length -> "
               "Replay panics: C06's class) and tearing inside a single write are not modelled on the event level; the byte-level "
               "relation FS.pl_image has them but no theorem uses it beyond pl_image_process_crash.  Metadata operations are "
               "assumed ordered and durable.",
    design_ref="§6 C04",
    rule=dc.RULE + "  C04: per history up to 100 power-loss images (600 thorough): crash points after every ack / primary write / "
                   "sync / fsync; lost = every single not-yet-durable write, and pairs among the last four (WAL appends closed "
                   "under 'later appends to the same file are lost too').",
    extra_assume=["power loss = loss of whole system calls that were not followed by fsync (same WAL file) / sync; no tearing, no reordering of metadata"])
SPEC["level"] = "proof"


def run(ctx, replay):
    return dc.run_check(SPEC, ctx, replay)
