import json
import os
import subprocess


def race_post(ctx, rows, info, broken):
    """Concurrent half: race the real RemoveTimeBucket against AddTimeBucket (harness/cmd/c17race) and report the
    outcome as a listed finding class; Properties/C17conc.v holds the model-level refutation."""
    if info.get("replay"):
        return
    root = os.path.dirname(os.path.dirname(os.path.abspath(__file__)))
    exe = os.path.join(root, "harness", "bin", "c17race")
    desc = json.load(open(os.path.join(root, "corpus", "C17conc", "race_destroy_create.json")))
    try:
        p = subprocess.run([exe] + desc["args"], stdout=subprocess.PIPE, stderr=subprocess.DEVNULL, timeout=120, text=True)
        out = [l for l in p.stdout.splitlines() if l.startswith("{") and '"level"' not in l]
        res = json.loads(out[-1]) if out else {"hit": False, "err": "no output (exit %d)" % p.returncode}
    except Exception as ex:  # noqa: BLE001
        res = {"hit": False, "err": str(ex)}
    info.setdefault("extra_coverage", {})["race_destroy_create"] = res
    # since "fix: RemoveTimeBucket holds the root lock" the race is a regression: any inconsistency is a violation
    if res.get("hit"):
        rows.append({"source": "race:corpus/C17conc/race_destroy_create.json", "input": desc, "obs": res, "holds": False,
                     "class": "", "detail": "Destroy || Create left the catalog inconsistent with the disk: catalog_only=%s disk_only=%s create_msg=%s"
                     % (res.get("catalog_only"), res.get("disk_only"), res.get("create_msg")),
                     "in_domain": True, "tags": ["race"], "nontrivial": False, "key": "race"})
    elif res.get("err"):
        broken.append(("correspondence", "c17race", str(res.get("err"))))


SPEC = {
    "id": "C17",
    "coq_props": ["Properties/C17.v", "Properties/C17conc.v", "Corr/C17.v"],
    "module": "MS.Properties.C17 MS.Properties.C17conc",
    "theorems": ["C17_seq_K1", "C17_seq_K2", "C17_seq_K3", "C17conc_all_schedules_K"],
    "corr_require": "Require Import MS.Corr.C17.",
    "agrees": "C17.agrees",
    "in_domain": "C17.in_domain",
    "model_prop": "fun k => implb (C17.in_domain k) (C17.model_consistent k)",
    "n_quick": 45,
    "n_thorough": 4000,
    "shard": 20,
    "rule": "see harness/props/c17.go: 4-12 requests over {A,B} x {1Min,5Min} x {G,H} x years {2021,2022,2023,current}: create, write of 1-3 rows "
            "(auto-create, new-year files, mismatching schema), destroy, restart, query; after every request the catalog's buckets and year files are "
            "compared with a walk of the disk and with a fresh NewDirectory(root); distinct = distinct input; non-trivial = well-formed keys and >=2 "
            "successful mutating requests",
    "trusted_base": [
        "Coq 8.16.1 kernel + vm_compute (no native_compute); axioms: none (Closed under the global context)",
        "hand-written model coq/Model/Catalog.v + coq/Base/Path.v (shared with C16), tied by in-Coq evaluation of every generated case against the real "
        "instance: result codes, change of the full sandbox listing, ListTimeBucketKeyNames, GatherTimeBucketInfo and the view of a fresh NewDirectory(root) after every request",
        "the sequential theorems are inductive over request sequences with a finite explicit invariant (table of canonical states, Proofs/Catalog_seq_K1.v, _K2.v) "
        "whose closure under all requests is checked by vm_compute; the bound (3 buckets x 2 years x 2 schemas) is in the statement",
        "Go harness (harness/props/c17.go, catcase.go, internal/catinst), add-only hook /repo/executor/verif_catinst.go, Python driver lib/vk.py",
    ],
    "assumptions": [
        "the concurrent half is a separate interleaving model (Properties/C17conc.v) tied to the code by the race regression only (no trace validation)",
        "a year file's content is a schema tag; create on a live bucket reuses the bucket's schema in generated cases (AddFile copies the header of a map-order-dependent template file)",
        "the model treats utils.TimeframeFromString as an input; years lie in 1..9999",
    ],
    "level": "proof",
    "level_text": "Coq theorems C17_seq_K1 / C17_seq_K2: for EVERY finite sequence of create / write (one or two years, auto-create, new-year files) / destroy / query / restart "
                  "requests over the key spaces {A/1Min/G, A/5Min/G, B/1Min/G} and {A/1Min/G, A/1Min/H, B/1Min/G} x years {2021,2022} x two schemas, from an empty root, the "
                  "in-memory catalog (tree and directMap) equals catalog.NewDirectory of the disk, and its buckets and years are exactly those of the specification state. "
                  "Induction over the sequence; invariant = explicit table of the 730 reachable states per key space, closure under the 41 requests checked by vm_compute. "
                  "Concurrent (since the root-lock fix): C17conc_all_schedules_K - on the interleaving model with the root lock, for EVERY schedule (no guard) of an AddTimeBucket thread (whole or scan/install) "
                  "and two step-wise RemoveTimeBucket threads over three buckets, every quiescent state is consistent (reachable set by BFS, closure by vm_compute). The former findings "
                  "(Destroy || Create race, symbol metadata.db) are fixed in /repo and kept as regressions (race tool, corpus).",
    "level_note": "No axioms. The general statement over all names/years (C17_seq_general) is stated, not proved. Concurrent half: bounded-alphabet theorem over all schedules of an interleaving model "
                  "(node ids canonically renumbered after every label, root lock in the state) + race regression of the real RemoveTimeBucket against AddTimeBucket (60 trials per run); the real mutexes are assumed. Modelled not verified: catalog/catalog.go, frontend/write.go, executor/writer.go (catalog part).",
    "design_ref": "§6 C17",
    "post": race_post,
}
