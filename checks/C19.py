SPEC = {
    "id": "C19",
    "coq_props": ["Properties/C19.v", "Corr/C19.v"],
    "module": "MS.Properties.C19",
    "theorems": ["C19_guarded", "C19_time_order", "C19_refuted", "C19_refuted_epoch_seconds", "C19_refuted_incl_upper",
                 "C19_refuted_repeated_bound", "C19_refuted_unfiltered_type", "C19_refuted_int_literal",
                 "C19_refuted_nan_value", "C19_nonvacuous"],
    "corr_require": "Require Import MS.Corr.C19.",
    "agrees": "C19.agrees",
    "in_domain": "C19.in_domain",
    "model_prop": "fun k => implb (C19.in_domain k) (C19.model_select k)",
    "n_quick": 220,
    "n_thorough": 12000,
    "shard": 55,
    "rule": "see harness/props/c19.go: a bucket of 1-3 value columns (float32/float64/int32/int64, 10% other integer types) and 1-7 rows "
            "(1-14 thorough) on the grid of 1Sec/1Min/5Min/1H written into a real temporary instance; 0-3 WHERE conjuncts over Epoch "
            "(datetime string / epoch ns / epoch s) and value columns with literals on, between and outside stored values; distinct = "
            "distinct input; non-trivial = inside the theorem's guard with >=1 predicate and >=2 rows",
    "trusted_base": [
        "Coq 8.16.1 kernel + vm_compute (no native_compute)",
        "axioms (all from the Coq standard library's classical reals, entering through Flocq's binary_normalize / its correctness "
        "theorems used for float64(int64) monotonicity and NaN-freeness): ClassicalDedekindReals.sig_forall_dec, sig_not_dec, "
        "FunctionalExtensionality.functional_extensionality_dep, Classical_Prop.classic",
        "Flocq 4.1 BinarySingleNaN (float32/float64 values, comparison, rounding) and coq/Base/FGen.v F32.v F64.v (bit transport, order key)",
        "translator gen/: isNanosec, convertUnitToNanosec, nanosec, the ComparisonOperatorEnum and StaticPredicateContentsEnum values and "
        "the element-type enum are regenerated from sqlparser/ and utils/io on every run",
        "hand-written model coq/Model/Sql.v of the visitor's StaticPredicateGroup construction, IsFalse, Epoch push-down, the fixed-record "
        "scan range and the post-filter; tied by in-Coq evaluation of every generated case against the real pipeline's "
        "StaticPredicateGroup (hook sqlparser/verif_c19.go) and returned rows (harness/props/c19.go)",
        "Go harness (independent reference semantics for the oracle), Python driver lib/vk.py",
    ],
    "assumptions": [
        "the model starts from the predicate list the visitor feeds to the StaticPredicateGroup (literals after CoerceToNumeric); the ANTLR "
        "parser and datetime-string parsing are exercised only by the correspondence",
        "fixed-length buckets, timeframes dividing a day (1Sec/1Min/5Min/1H generated), instance timezone UTC, bars on the timeframe grid "
        "between 1970-01-01 00:00:33 and 2262; no column named Nanoseconds; SELECT * without LIMIT (projection and LIMIT are C20)",
        "the scan is modelled as the rows whose absolute slot lies between the slots of Range.Start and Range.End (executor/scanner.go "
        "NewIOPlan + TimeToIndex); the reader itself is C08/C12's subject",
        "float columns are compared against the literal converted to the column's float type (float32(float64(literal))); on a float32 "
        "column a lower and upper bound that IsFalse orders in float64 must stay ordered in float32 (domain restriction f32_bounds_ordered)",
        "int64(float64) is modelled as on amd64 (truncation, 0x8000000000000000 when out of range)",
        "literals are non-negative (negative literals do not parse); NOT BETWEEN, <>, OR, IN, LIKE are outside the property",
    ],
    "level": "proof",
    "level_text": "Coq theorem C19_guarded: for EVERY timeframe, schema, stored history and conjunction of comparisons / BETWEEN inside the "
                  "boolean guard, the model of SelectRelation.Materialize returns exactly the relational filter of the stored rows, in time "
                  "order (C19_time_order). The unguarded statement C19_full is refuted (C19_refuted) with one computed witness per defect "
                  "class (six classes, each replayed on the real code and listed in known_findings.txt). The model is tied to the code by "
                  "translation of the unit-conversion functions and enums and by differential in-Coq evaluation of the real "
                  "StaticPredicateGroup and result rows on every run.",
    "level_note": "Axioms: the classical-reals axioms of Coq's standard library through Flocq (listed in trusted_base); none declared here. "
                  "Modelled not verified: sqlparser/selectrelation.go Materialize (WHERE path), StaticPredicate*, executablestatement.go "
                  "VisitComparisonParse/VisitBetweenParse/VisitBooleanExpressionParse, utils/io/generics.go GenericComparison, the scan range "
                  "of executor/scanner.go. Not covered: variable-length buckets (Nanoseconds column), sub-queries, functions in the select list.",
    "design_ref": "§6 C19, §8 F19",
}
