from checks import durab_common as dc

SPEC = dc.spec(
    "C34", ["C34_replayed_then_deleted", "C34_unlink_discipline", "C34_own_untouched", "C34_second_restart"],
    "Durab.c34_prop", 3, 12,
    level_text="Coq theorems: C34_unlink_discipline / C34_own_untouched, for ANY image and ANY list of leftover WAL files: the start-up "
               "never touches its own WAL and unlinks a file only if it is no longer than a status message or right after a Replay of "
               "it returned nil (a file that cannot be replayed is renamed, never deleted); C34_replayed_then_deleted, for every "
               "schedule and crash prefix outside a continuation window: the crashed run's WAL is replayed and only the new "
               "instance's WAL remains; C34_second_restart: a second restart replays nothing.  'Replayed ONCE' is refuted for "
               "variable-length records (C02_refuted); the multiplicities after a crash DURING replay are predicted by the model and "
               "compared with the real code.",
    level_note="No axioms.  Crashes during start-up replay are covered by the correspondence, not by a theorem: the recovery of "
               "selected crash images runs under strace, every prefix of ITS system calls is materialised on top of the image and a "
               "second REAL recovery is compared with the model's (class, rows); the recovery's own call sequence must be the model's "
               "(trace validation of recover).  First crash points with a torn WAL tail are excluded (a later checkpoint append "
               "buries the torn tail and the byte-level scanner leaves the record grid: C06's subject).",
    design_ref="§6 C34",
    rule=dc.RULE + "  C34: per history up to 3 first crash points (after a WAL fsync, inside the primary phase, end of run); the "
                   "recovery of each is traced and every prefix of it (<=80) is crashed again.")


def run(ctx, replay):
    return dc.run_check(SPEC, ctx, replay)
